# C06 — operands keep their value: no hidden mutation or aliasing across calls
# History fuzzer over the public API (pool of live tensor trains, results fed back as operands,
# in-place / overwrite variants interleaved), observed against a shadow of dense values + metadata
# and against the sharing graph predicted by the Coq heap model (coq/Heap).
import numpy as np, random, warnings
from harness import lib
from harness.lib import dense, close, consistent

import scikit_tt.tensor_train as ttm
from scikit_tt.tensor_train import TT
import scikit_tt.solvers.sle as sle
import scikit_tt.solvers.evp as evp
import scikit_tt.solvers.ode as ode
lib.guard_expm(ode)
import scikit_tt.data_driven.tdmd as tdmd
import scikit_tt.data_driven.regression as reg
import scikit_tt.data_driven.transform as tdt
import scikit_tt.data_driven.tedmd as tedmd

PROP_FILES = ['Props/C06.v']
REQ = ['SkTT.Check.C06']
warnings.filterwarnings('ignore')


class Obj:
    def __init__(self, t, kind):
        self.t = t
        self.kind = kind        # 'vec' | 'op' | 'misc'


def snap(t):
    return ([c.copy() for c in t.cores], t.order, list(t.row_dims), list(t.col_dims), list(t.ranks))


def same(t, s):
    cores, order, rd, cd, rk = s
    if t.order != order or list(t.row_dims) != rd or list(t.col_dims) != cd or list(t.ranks) != rk or len(t.cores) != len(cores):
        return False
    return all(a.shape == b.shape and np.array_equal(a, b, equal_nan=True) for a, b in zip(t.cores, cores))


def base(a):
    while isinstance(a, np.ndarray) and a.base is not None and isinstance(a.base, np.ndarray):
        a = a.base
    return a


def shares(t, u):
    for a in t.cores:
        for b in u.cores:
            if a is b or np.shares_memory(a, b):
                return True
    # the metadata lists are mutable state too: two live objects must not hold the same list object
    for name in ('row_dims', 'col_dims', 'ranks', 'cores'):
        if getattr(t, name) is getattr(u, name):
            return True
    return False


class History:
    def __init__(self, rng, cplx):
        self.rng = rng
        self.cplx = cplx
        self.order = rng.choice([1, 2, 2, 2, 3, 3, 3, 3])       # order 1: single-core shortcuts of the solvers
        self.dims = [rng.choice([1, 2, 2, 3]) for _ in range(self.order)]
        self.pool = []
        self.shadow = []
        self.log = []          # event literals for the Coq model: [api code, [arg ids], [result sizes], target or -1]
        self.names = []

    def rranks(self):
        return [1] + [self.rng.choice([1, 1, 2]) for _ in range(self.order - 1)] + [1]

    def entries(self, shape):
        n = int(np.prod(shape))
        a = np.array([self.rng.gauss(0, 1) for _ in range(n)]).reshape(shape)
        if self.cplx:
            a = a + 1j * np.array([self.rng.gauss(0, 1) for _ in range(n)]).reshape(shape)
        return a

    def new_vec(self):
        r = self.rranks()
        return TT([self.entries((r[i], self.dims[i], 1, r[i + 1])) for i in range(self.order)])

    def new_op(self, hpd=False):
        r = self.rranks()
        t = TT([self.entries((r[i], self.dims[i], self.dims[i], r[i + 1])) for i in range(self.order)])
        if hpd:
            t = t @ t.transpose(conjugate=True) + 2 * ttm.eye(self.dims)
        return t

    def add(self, t, kind):
        self.pool.append(Obj(t, kind))
        self.shadow.append(snap(t))
        return len(self.pool) - 1

    def pick(self, kind):
        ids = [i for i, o in enumerate(self.pool) if o.kind == kind]
        if not ids or self.rng.random() < 0.25:
            t = self.new_vec() if kind == 'vec' else self.new_op(hpd=self.rng.random() < 0.5)
            i = self.add(t, kind)
            self.log.append([0, [], [t.order], -1])
            self.names.append('new_' + kind)
            return i
        return self.rng.choice(ids)


# op table: name -> (api code, function(h) -> (arg ids, results list[(TT, kind)], target id or None))
def _bin(code, f, k1, k2, kres):
    def run(h):
        a, b = h.pick(k1), h.pick(k2)
        return [a, b], [(f(h.pool[a].t, h.pool[b].t), kres)], None
    return code, run


def _un(code, f, k, kres):
    def run(h):
        a = h.pick(k)
        return [a], [(f(h.pool[a].t, h), kres)], None
    return code, run


def _inplace(code, f, kinds=('vec', 'op', 'misc')):
    def run(h):
        ids = [i for i, o in enumerate(h.pool) if o.kind in kinds]
        if not ids:
            ids = [h.pick(kinds[0] if kinds[0] in ('vec', 'op') else 'vec')]       # an object of an admissible kind (never a vector for an operator-only operation)
        a = h.rng.choice(ids)
        try:
            r = f(h.pool[a].t, h)
        except Exception:
            r = None          # the target may be left partially processed; the other objects must not change
        res = []
        if isinstance(r, TT) and r is not h.pool[a].t:
            res = [(r, h.pool[a].kind)]
        return [a], res, a
    return code, run


def _tensordot(h, overwrite):
    a, b = h.pick('vec'), h.pick('vec')
    if overwrite and a == b:     # t.tensordot(t, overwrite=True): the caller aliases the operands himself
        b = h.add(h.new_vec(), 'vec')
        h.log.append([0, [], [h.order], -1])
    k = h.rng.randint(1, h.order)
    mode = h.rng.choice(['last-first', 'last-last', 'first-last', 'first-first'])
    ta, tb = h.pool[a].t, h.pool[b].t
    # dims must match on the contracted cores: reverse-pairings need palindromic dims; fall back to a fresh compatible operand
    tc = list(range(h.order - k, h.order)) if mode.startswith('last') else list(range(k))
    uc = list(range(k)) if mode.endswith('first') else list(range(h.order - k, h.order))
    if [h.dims[i] for i in tc] != [h.dims[i] for i in uc]:
        mode = 'last-last' if mode in ('last-last', 'last-first') else 'first-first'
    r = ta.tensordot(tb, k, mode=mode, overwrite=overwrite)
    if overwrite:
        return [a, b], [], a
    return [a, b], [(r, 'misc')], None


def _concat(h, overwrite, aslist):
    a, b = h.pick('vec'), h.pick('vec')
    if overwrite and a == b:
        b = h.add(h.new_vec(), 'vec')
        h.log.append([0, [], [h.order], -1])
    ta, tb = h.pool[a].t, h.pool[b].t
    other = list(tb.cores) if aslist else tb
    r = ta.concatenate(other, overwrite=overwrite)
    if overwrite:
        h.pool[a].kind = 'misc'
        return [a, b], [], a
    return [a, b], [(r, 'misc')], None


def _svd_ow(h):
    # svd / pinv with overwrite=True consume self (u and v are assembled from its cores): self is dead afterwards
    a = h.add(h.new_vec(), 'vec')
    h.log.append([0, [], [h.order], -1])
    t = h.pool[a].t
    if h.rng.random() < 0.5:
        u, s_, v = t.svd(h.rng.randint(1, t.order - 1), overwrite=True)
        res = [(u, 'misc'), (v, 'misc')]
    else:
        res = [(t.pinv(h.rng.randint(1, t.order - 1), overwrite=True), 'vec')]
    h.pool[a].kind = 'dead'
    return [a], res, a


def _solver(code, f):
    def run(h):
        A = h.pick('op')
        x = h.pick('vec')
        b = h.pick('vec')
        out = f(h, h.pool[A].t, h.pool[x].t, h.pool[b].t)
        res = []
        args = [A, x, b]
        for o in out:
            if isinstance(o, TT):
                ident = [i for i in args if h.pool[i].t is o]
                if not ident:
                    if any(o is q for q, _ in res):
                        res.append((o, 'dup'))          # one object handed out twice by the same call
                        continue
                    res.append((o, 'vec' if (o.order == h.order and list(o.row_dims) == h.dims and all(c == 1 for c in o.col_dims)) else 'misc'))
        return args, res, None
    return code, run


def _arr(h, guess, as_list=False):
    # alternating ridge regression with a TT initial guess whose mode sizes are the numbers of basis functions
    d, m = 2, 4
    xdat = np.array([[h.rng.uniform(-1, 1) for _ in range(m)] for _ in range(d)])
    ydat = np.array([[h.rng.uniform(-1, 1) for _ in range(m)]])
    basis = [[tdt.ConstantFunction(0), tdt.Identity(k % d), tdt.Monomial(k % d, 2)][:n] for k, n in enumerate(h.dims)]
    if any(c != 1 for c in guess.col_dims) or guess.ranks[0] != 1 or guess.ranks[-1] != 1:
        return []
    g = guess if not h.cplx else None
    if g is None:
        return []
    if as_list:          # one guess per output, handed over as a list (the same live object)
        return reg.arr(xdat, ydat, basis, [g], repeats=1, progress=False)
    return [reg.arr(xdat, ydat, basis, g, repeats=1, progress=False)]


def _new(code, f, kind):
    """constructors: no operand, a fresh result"""
    def run(h):
        return [], [(f(h), kind)], None
    return code, run


def _rank_transpose_any(h):
    # on trains with open boundary ranks: the u or v part of a fresh TT.svd (first resp. last rank > 1)
    a = h.pick('vec')
    t = h.pool[a].t
    if h.order < 2:
        return [a], [(t.rank_transpose(), 'misc')], None
    u, _, v = t.svd(h.rng.randint(1, h.order - 1))
    w = u if h.rng.random() < 0.5 else v
    return [a], [(w.rank_transpose(), 'misc')], None


def _tjm(h, A, x):
    np.random.seed(h.rng.getrandbits(31))
    return [ode.tjm_jump_process_tdvp(A, x, [[0.3 * np.eye(d)] for d in h.dims], [[0.5] for _ in h.dims], 0.01)]


def _transpose_partial(h, overwrite=False):
    # a fresh operator with non-square modes, transposed on a subset of its cores (not necessarily a prefix, any order)
    r = h.rranks()
    cd = [d + h.rng.randint(0, 2) for d in h.dims]
    t = TT([h.entries((r[i], h.dims[i], cd[i], r[i + 1])) for i in range(h.order)])
    a = h.add(t, 'misc')
    h.log.append([0, [], [t.order], -1])
    sub = h.rng.sample(range(h.order), h.rng.randint(1, h.order))
    if overwrite:
        t.transpose(cores=sub, conjugate=h.rng.random() < 0.5, overwrite=True)
        return [a], [], a
    return [a], [(t.transpose(cores=sub, conjugate=h.rng.random() < 0.5), 'misc')], None


def _prefix(h, A, x):
    # a trajectory state, once appended, is a live result: later steps of the same call must not change it, so the
    # trajectory of n steps starts with the trajectory of n-1 steps (deterministic integrators)
    name = h.rng.choice(['tdvp1site', 'tdvp2site', 'explicit_euler', 'hod'])
    nrm = h.rng.choice([0, 2, 2])
    n = h.rng.randint(2, 3)
    def call(k):
        if name == 'explicit_euler':
            return ode.explicit_euler(A, x, [0.01] * k, normalize=nrm, progress=False)
        if name == 'hod':
            return ode.hod(A, x, 0.01, k, normalize=nrm, progress=False)
        return getattr(ode, name)(A, x, 0.01, k, normalize=nrm)
    long, short = call(n), call(n - 1)
    for k in range(1, n):
        a_, b_ = long[k].full(), short[k].full()
        if a_.shape != b_.shape or not np.allclose(a_, b_, rtol=1e-7, atol=1e-9 * (1 + np.abs(b_).max())):
            raise PrefixError('%s(normalize=%d): state %d of the %d-step trajectory differs from state %d of the %d-step trajectory '
                              '(a returned state was changed by a later step)' % (name, nrm, k, n, k, n - 1))
    return long[1:]


class PrefixError(Exception):
    pass


def _amuset(h, variant):
    # tensor-based EDMD on a small data set with a list of index-set pairs, one of them with very few snapshots (the reduced
    # SVD then keeps fewer directions than the last TT rank); results: the eigentensors
    d, m = 2, 7
    x = np.array([[h.rng.uniform(-1, 1) for _ in range(m)] for _ in range(d)])
    p = h.rng.randint(2, 3)
    basis = [[tdt.ConstantFunction(k % d), tdt.Identity(k % d), tdt.Monomial(k % d, 2)][:h.rng.randint(2, 3)] for k in range(p)]
    def idx(k):
        i0 = h.rng.sample(range(m - 1), k)
        return np.array(i0), np.array(i0) + 1
    pairs = [idx(h.rng.choice([1, 2, 5])) for _ in range(h.rng.randint(1, 3))]
    if variant == 'hosvd':
        out = tedmd.amuset_hosvd(x, [a for a, _ in pairs], [b for _, b in pairs], basis, threshold=1e-12)
    else:
        out = tedmd.amuset_hocur(x, [a for a, _ in pairs], [b for _, b in pairs], basis, max_rank=50)
    et = out[1]
    return [], [(t, 'misc') for t in (et if isinstance(et, list) else [et])], None


def steps(h):
    return [0.01 * h.rng.randint(1, 3) for _ in range(h.rng.randint(1, 2))]


OPS = {
    'add_vec': _bin(1, lambda a, b: a + b, 'vec', 'vec', 'vec'),
    'sub_vec': _bin(2, lambda a, b: a - b, 'vec', 'vec', 'vec'),
    'add_op': _bin(1, lambda a, b: a + b, 'op', 'op', 'op'),
    'matvec': _bin(3, lambda a, b: a @ b, 'op', 'vec', 'vec'),
    'matmat': _bin(3, lambda a, b: a.dot(b), 'op', 'op', 'op'),
    'smul': _un(4, lambda a, h: (2.0 if not h.cplx else (1 + 1j)) * a, 'vec', 'vec'),
    'rmul': _un(4, lambda a, h: a * 0.5, 'op', 'op'),
    'copy': _un(5, lambda a, h: a.copy(), 'vec', 'vec'),
    'transpose': _un(6, lambda a, h: a.transpose(conjugate=h.rng.random() < 0.5), 'op', 'op'),
    'conj': _un(7, lambda a, h: a.conj(), 'vec', 'vec'),
    'rank_transpose': _un(8, lambda a, h: a.rank_transpose(), 'vec', 'misc'),
    'diag': _un(9, lambda a, h: a.diag(list(range(h.order))), 'vec', 'op'),
    'diag_partial': _un(9, lambda a, h: a.diag(sorted(h.rng.sample(range(h.order), h.rng.randint(0, h.order - 1)))), 'vec', 'misc'),
    'squeeze': _un(10, lambda a, h: a.squeeze(), 'vec', 'misc'),
    'tt2qtt': _un(11, lambda a, h: a.tt2qtt([[d] for d in h.dims], [[1]] * h.order), 'vec', 'vec'),
    'qtt2tt': _un(12, lambda a, h: a.qtt2tt([1] * h.order), 'vec', 'vec'),
    'svd': (13, lambda h: (lambda a: ([a], [(x, 'misc') for x in h.pool[a].t.svd(h.rng.randint(1, h.order - 1), ortho_l=h.rng.random() < 0.6, ortho_r=h.rng.random() < 0.6) if isinstance(x, TT)], None))(h.pick('vec'))),
    'pinv': (14, lambda h: (lambda a: ([a], [(h.pool[a].t.pinv(h.rng.randint(1, h.order - 1), ortho_l=h.rng.random() < 0.6, ortho_r=h.rng.random() < 0.6), 'vec')], None))(h.pick('vec'))),
    'tensordot': (15, lambda h: _tensordot(h, False)),
    'tensordot_ow': (16, lambda h: _tensordot(h, True)),
    'concatenate': (17, lambda h: _concat(h, False, False)),
    'concatenate_list': (17, lambda h: _concat(h, False, True)),
    'concatenate_ow': (18, lambda h: _concat(h, True, False)),
    'rank_tensordot': _un(19, lambda a, h: a.rank_tensordot(np.eye(1), mode=h.rng.choice(['last', 'first'])), 'vec', 'vec'),
    'readers': _un(20, lambda a, h: (a.full(), a.matricize(), a.norm(p=2), a.norm(p=1), a.element([0] * (2 * a.order)), a.isoperator(), repr(a)) and None, 'vec', None),
    'readers_op': _un(20, lambda a, h: (a.full(), a.matricize(), a.norm(p=2), a.norm(p=1), a.element([0] * (2 * a.order)), a.isoperator(), repr(a)) and None, 'op', None),
    'readers_misc': _un(20, lambda a, h: (a.norm(p=2), a.isoperator(), repr(a)) and None, 'misc', None),
    # in-place
    'ortho_left': _inplace(30, lambda t, h: t.ortho_left()),
    'ortho_right': _inplace(31, lambda t, h: t.ortho_right()),
    'ortho': _inplace(32, lambda t, h: t.ortho(threshold=h.rng.choice([0, 1e-14]))),
    'ortho_partial': _inplace(30, lambda t, h: t.ortho_left(start_index=0, end_index=max(0, t.order - 2 - h.rng.randint(0, 1)))),
    'transpose_ow': _inplace(33, lambda t, h: t.transpose(overwrite=True), kinds=('op',)),
    'conj_ow': _inplace(34, lambda t, h: t.conj(overwrite=True)),
    'rank_tensordot_ow': _inplace(35, lambda t, h: t.rank_tensordot(np.eye(t.ranks[-1]), overwrite=True)),
    'svd_ow': (36, lambda h: _svd_ow(h)),
    # solvers / integrators / data driven
    'sle_als': _solver(40, lambda h, A, x, b: [sle.als(A, x, b, repeats=1, solver=h.rng.choice(['solve', 'lu']))]),
    'sle_mals': _solver(41, lambda h, A, x, b: [sle.mals(A, x, b, repeats=1)] if h.order >= 2 else []),
    'evp_als': _solver(42, lambda h, A, x, b: list(evp.als(A, x, repeats=1, solver='eig')[1:2])),
    'evp_als_multi': _solver(43, lambda h, A, x, b: list(evp.als(A, x, number_ev=2, repeats=1, solver='eig')[1]) if min(x.ranks[1:-1] + [9]) >= 2 or True else []),
    'evp_power': _solver(44, lambda h, A, x, b: [evp.power_method(A, x, repeats=1)[1]]),
    'explicit_euler': _solver(45, lambda h, A, x, b: ode.explicit_euler(A, x, steps(h), progress=False)),
    'implicit_euler': _solver(46, lambda h, A, x, b: ode.implicit_euler(A, x, b, steps(h), progress=False)),
    'trapezoidal': _solver(47, lambda h, A, x, b: ode.trapezoidal_rule(A, x, b, steps(h), progress=False)),
    'hod': _solver(48, lambda h, A, x, b: ode.hod(A, x, 0.01, 2, previous_value=(b if h.rng.random() < 0.5 else None), normalize=h.rng.choice([0, 2]), progress=False)),
    'hod_op': _solver(57, lambda h, A, x, b: ode.hod(A, x, 0.01, 2, op_hod=h.pool[h.pick('op')].t, threshold=h.rng.choice([1e-14, 1e-1]), progress=False)),
    'evp_als_prev': _solver(58, lambda h, A, x, b: list(evp.als(A, x, previous=[b], shift=1.0, repeats=1, solver='eig')[1:2])),
    'evp_als_gevp': _solver(59, lambda h, A, x, b: list(evp.als(A, x, operator_gevp=h.pool[h.pick('op')].t, repeats=1, solver='eig')[1:2])),
    'evp_power_gevp': _solver(60, lambda h, A, x, b: [evp.power_method(A, x, operator_gevp=h.pool[h.pick('op')].t, repeats=1)[1]]),
    'tdvp1site': _solver(49, lambda h, A, x, b: ode.tdvp1site(A, x, 0.01, 1)),
    'krylov': _solver(50, lambda h, A, x, b: [ode.krylov(A, x, 2, 0.01)]),
    'errors': _solver(51, lambda h, A, x, b: (ode.errors_expl_euler(A, [x, b], [0.01]), ode.errors_impl_euler(A, [x, b], [0.01]), ode.errors_trapezoidal(A, [x, b], [0.01])) and []),
    'tdvp2site': _solver(53, lambda h, A, x, b: ode.tdvp2site(A, x, 0.01, 1)),
    'adaptive': _solver(54, lambda h, A, x, b: ode.adaptive_step_size(A, x, b, 0.02, step_size_first=0.01, progress=False)[0]),
    'tdmd': _solver(55, lambda h, A, x, b: [getattr(tdmd, h.rng.choice(['tdmd_exact', 'tdmd_standard']))(x, b)[1]]),
    'arr': _solver(56, lambda h, A, x, b: _arr(h, x)),
    'arr_list': _solver(56, lambda h, A, x, b: _arr(h, x, as_list=True)),
    'tjm_jump': _solver(62, lambda h, A, x, b: _tjm(h, A, x)),
    'rank_transpose_any': (8, _rank_transpose_any),
    'transpose_partial': (6, _transpose_partial),
    'transpose_partial_ow': (33, lambda h: _transpose_partial(h, True)),
    'prefix': _solver(63, lambda h, A, x, b: _prefix(h, A, x)),
    'amuset_hosvd': (64, lambda h: _amuset(h, 'hosvd')),
    'amuset_hocur': (64, lambda h: _amuset(h, 'hocur')),
    'new_eye': _new(61, lambda h: ttm.eye(list(h.dims)), 'op'),
    'new_ones': _new(61, lambda h: ttm.ones(list(h.dims), [1] * h.order, ranks=h.rng.randint(1, 2)), 'vec'),
    # (no tt.zeros: the zero tensor with a threshold is finding F14 -- rank-0 cores -- and LAPACK corrupts the heap on the empty
    #  arrays that follow; decided under C04)
    'new_unit': _new(61, lambda h: ttm.unit(list(h.dims), [0] * h.order), 'vec'),
    'new_rand': _new(61, lambda h: ttm.rand(list(h.dims), [1] * h.order, ranks=2), 'vec'),
    'new_uniform': _new(61, lambda h: ttm.uniform(list(h.dims), ranks=2), 'vec'),
    'residual': _solver(52, lambda h, A, x, b: (ttm.residual_error(A, x, b),) and []),
}


def evp_multi_ok(h):
    return True


def run_history(seed, length, cplx=None, only=None):
    rng = random.Random(seed)
    h = History(rng, rng.random() < 0.3 if cplx is None else cplx)
    names = sorted(OPS) if only is None else only
    desc = {'seed': seed, 'dims': h.dims, 'complex': h.cplx, 'ops': []}
    for step in range(length):
        name = rng.choice(names)
        code, fn = OPS[name]
        before = len(h.pool)
        raised = False
        try:
            args, results, target = fn(h)
        except PrefixError as e:
            desc['ops'].append(name)
            return str(e), desc
        except Exception as e:
            raised = True
            desc['ops'].append(name + ' !raised')
            # an exception on valid operands is not decided here (value properties decide it); the
            # operands must still be unchanged
            args, results, target = [], [], None
        desc['ops'].append(name)
        new_ids = []
        for t, kind in results:
            if kind is None or not isinstance(t, TT):
                continue
            if kind == 'dup':
                return '%s handed out the same tensor-train object twice among its results' % name, desc
            if not consistent(t):
                return 'result of %s has inconsistent order/dims/ranks/cores' % name, desc
            if not np.any(dense(t.cores)):
                # an exactly zero train (eye - eye, unit - unit, ...) is not kept in the pool: the zero tensor with a threshold
                # is finding F14 (rank-0 cores), and LAPACK corrupts the heap on the empty arrays that follow
                continue
            new_ids.append(h.add(t, kind))
        # 1. every live object other than the target keeps value and metadata
        for i, o in enumerate(h.pool):
            if i == target or i in new_ids or o.kind == 'dead':
                continue
            if not same(o.t, h.shadow[i]):
                return 'object #%d (%s) changed during %s although it is not the target' % (i, o.kind, name), desc
        if target is not None and h.pool[target].kind != 'dead':
            if not consistent(h.pool[target].t):
                return 'target of %s is left inconsistent' % name, desc
            h.shadow[target] = snap(h.pool[target].t)
        # 2. separation: distinct live objects share no buffer (prediction of the heap model)
        ids = [i for i in range(len(h.pool)) if h.pool[i].kind != 'dead']
        check = set(new_ids) | ({target} if target is not None else set())
        for i in check:
            if h.pool[i].kind == 'dead':
                continue
            for j in ids:
                if i != j and h.pool[i].t is not h.pool[j].t and shares(h.pool[i].t, h.pool[j].t):
                    # try to turn the aliasing into an observable change of an untouched object
                    for (x, y) in ((i, j), (j, i)):
                        for f in ('ortho_left', 'ortho_right', 'ortho', 'transpose_ow', 'rank_transpose_ow'):
                            s0 = snap(h.pool[y].t)
                            try:
                                if f == 'transpose_ow':
                                    h.pool[x].t.transpose(overwrite=True)
                                elif f == 'rank_transpose_ow':
                                    h.pool[x].t.rank_transpose(overwrite=True)
                                else:
                                    getattr(h.pool[x].t, f)()
                            except Exception:
                                continue
                            if not same(h.pool[y].t, s0):
                                desc['ops'].append('%s on #%d' % (f, x))
                                return 'after %s, object #%d aliases object #%d: %s() on the former changed the latter' % (name, x, y, f), desc
                    return 'ALIAS-ONLY after %s: objects #%d and #%d share memory (no value change provoked)' % (name, i, j), desc
        if not raised:
            h.log.append([code, args, [h.pool[k].t.order for k in new_ids], -1 if target is None else target])
    desc['log'] = h.log
    return None, desc


def run(ctx):
    quick = ctx.tier == 'quick'
    lib.stage_proof(ctx, PROP_FILES, ['Check/C06.vo', 'History/C06_pinned.vo'])
    n = 400 if quick else 12000
    L = 6 if quick else 12
    cases, metas = [], []
    for k in range(n):
        seed = ctx.rng.getrandbits(48)
        try:
            msg, desc = run_history(seed, L)
        except Exception as e:
            import traceback
            msg, desc = 'history raised %r' % (e,), {'seed': seed, 'tb': traceback.format_exc()[-600:]}
        ctx.evaluations += 1
        ctx.side_cases += 1
        for o in desc.get('ops', []):
            ctx.count('op:' + o.split(' ')[0])
        ctx.nontriv(tuple(desc.get('ops', []))[:4])
        if k < 2:
            ctx.sample({kk: vv for kk, vv in desc.items() if kk != 'log'})
        if not msg and desc.get('log'):
            cases.append([1, desc['log'], 0])
            metas.append({'desc': {'gen': 'run_history', 'seed': seed, 'length': L, 'ops': desc['ops']}, 'tags': {'op': 'history'}})
        if msg:
            op = msg.split(' ')[2] if msg.startswith('after') else 'x'
            found = not msg.startswith('ALIAS-ONLY') and not msg.startswith('history raised')
            ctx.fail('history: ' + msg, {'gen': 'run_history', 'seed': seed, 'length': L, 'case': desc}, tags={'msg': ' '.join(msg.split(' ')[:3])}, found_input=found)
    lib.stage_correspondence(ctx, 'histories', REQ, 'check_C06', cases, metas)
    return ctx.finish(level='proof', checker_cmd='make -C coq Props/C06.vo Check/C06.vo && coqc Props/C06.v', trusted=TRUSTED, explanation=RULE)


TRUSTED = ['Coq 8.16.1 kernel', 'harness history fuzzer and observer (np.shares_memory, value/metadata snapshots)',
           'the effect signatures (fresh / in-place-on-target / reader) are the hand-written part of the model; they are validated by observation on every run',
           "NumPy/LAPACK memory behaviour (when reshape copies, when LAPACK's overwrite_a writes) is observed, not modelled"]
RULE = ('random call histories (length 6 quick / 12 thorough) over a pool of live tensor trains of one shape family (vectors, operators, derived objects), biased to rank-1 bonds and size-1 modes, real and complex; '
        'after every step: every non-target object keeps dense value and metadata, every result is consistent, no two distinct live objects share memory (else in-place sweeps are applied to turn the aliasing into an observable change); '
        'distinct/non-trivial = distinct 4-prefixes of operation names')


def replay(obj):
    r = obj['replay']
    if r.get('gen') == 'run_history':
        msg, desc = run_history(r['seed'], r['length'])
        print('replay history seed=%s: %s' % (r['seed'], msg or 'OK (no failure)'))
        return 1 if msg else 0
    print('replay: see file')
    return 1
