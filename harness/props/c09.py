# C09 — one-step ODE schemes reproduce their defining recurrences
import numpy as np, random, warnings, math
warnings.filterwarnings('ignore')
from harness import lib, oracles
from harness.lib import dense, close, consistent
from harness.props.c01 import gen_tt, rranks, snapshot, unchanged
from harness.props.c07 import tape_lit as als_tape_lit, nonsym_op, max_ranks

import scikit_tt.tensor_train as ttm
from scikit_tt.tensor_train import TT
import scikit_tt.solvers.ode as ode
lib.guard_expm(ode)

PROP_FILES = ['Props/C09.v']
REQ = ['SkTT.Check.C09']


def states_lit(sol):
    return [lib.cores_lit(t.cores) for t in sol[1:]]


def gen_int_case(rng):
    which = rng.choice(['explicit', 'implicit', 'trapezoidal', 'hod'])
    order = rng.randint(1, 3)
    dims = [rng.randint(1, 2) for _ in range(order)]
    if all(d == 1 for d in dims):
        dims[0] = 2
    cplx = rng.random() < 0.3
    A = nonsym_op(rng, dims, rranks(rng, order, 2), cplx)
    x0 = gen_tt(rng, dims, [1] * order, rranks(rng, order, 2), cplx and rng.random() < 0.7, 'int')
    d = dict(which=which, order=order, dims=dims, cplx=cplx)
    snap = snapshot([A, x0])
    if which == 'explicit':
        hs = [float(rng.choice([1, 2, -1])) for _ in range(rng.randint(1, 2))]
        tape = oracles.Tape(rng, rng.choice(['arb', 'triv']), cplx=cplx, lo=-1, hi=1)
        with oracles.patched(tape, names=('svd',)):
            sol = ode.explicit_euler(A, x0, hs, threshold=0, max_rank=50, normalize=0, progress=False)
        lit = [1, [lib.cores_lit(A.cores), lib.cores_lit(x0.cores), [int(h) for h in hs], oracles.svd_tape_lit(tape.calls)], states_lit(sol)]
    elif which in ('implicit', 'trapezoidal'):
        g = gen_tt(rng, dims, [1] * order, rranks(rng, order, 2), cplx and rng.random() < 0.7, 'int')
        hs = [float(rng.choice([2, 4, -2])) for _ in range(rng.randint(1, 3))]
        reps = 1
        tape = oracles.Tape(rng, rng.choice(['arb', 'triv']), cplx=cplx, lo=-1, hi=1)
        snap = snapshot([A, x0, g])
        f = ode.implicit_euler if which == 'implicit' else ode.trapezoidal_rule
        with oracles.patched(tape, names=('qr', 'rq', 'solve', 'lu_factor', 'lu_solve')):
            sol = f(A, x0, g, hs, repeats=reps, tt_solver='als', micro_solver=rng.choice(['solve', 'lu']), normalize=0, progress=False)
        if not unchanged([A, x0, g], snap):
            raise AssertionError('integrator modified an argument')
        lit = [2 if which == 'implicit' else 3,
               [lib.cores_lit(A.cores), lib.cores_lit(x0.cores), lib.cores_lit(g.cores), [int(h) for h in hs], reps, als_tape_lit(tape.calls)], states_lit(sol)]
    else:
        p = gen_tt(rng, dims, [1] * order, rranks(rng, order, 2), cplx and rng.random() < 0.7, 'int')
        h = float(rng.choice([1, 2]))
        n = rng.randint(1, 2)
        tape = oracles.Tape(rng, rng.choice(['arb', 'triv']), cplx=cplx, lo=-1, hi=1)
        snap = snapshot([A, x0, p])
        with oracles.patched(tape, names=('svd',)):
            sol = ode.hod(A, x0, h, n, order=2, previous_value=p, threshold=0, max_rank=50, normalize=0, progress=False)
        if not unchanged([A, x0, p], snap):
            raise AssertionError('hod modified an argument')
        lit = [4, [lib.cores_lit(A.cores), lib.cores_lit(x0.cores), lib.cores_lit(p.cores), int(h), n, oracles.svd_tape_lit(tape.calls)], states_lit(sol)]
    if not unchanged([A, x0], snap[:2]):
        raise AssertionError('integrator modified an argument')
    if sol[0] is not x0:
        raise AssertionError('trajectory does not start with the initial value (by identity)')
    return lit, d


# ---- numerical side check ---------------------------------------------------------------------------
def nrm(v, p):
    return np.sum(np.abs(v)) if p == 1 else np.linalg.norm(v)


def side_case(seed):
    rng = random.Random(seed)
    which = rng.choice(['explicit', 'implicit', 'trapezoidal', 'hod', 'errors', 'adaptive'])
    order = rng.randint(1, 3)
    dims = [rng.randint(1, 3) for _ in range(order)]
    if all(d == 1 for d in dims):
        dims[0] = 2
    n = int(np.prod(dims))
    normalize = rng.choice([0, 1, 2])
    cplx = rng.random() < 0.3 and normalize != 1
    A = gen_tt(rng, dims, dims, rranks(rng, order, 2), cplx, 'float')
    if normalize == 1 and which == 'hod':
        normalize = 2           # HOD subtracts: its states are not entrywise non-negative, the 1-norm precondition fails
    if normalize == 1:        # the code's own precondition for the 1-norm: non-negative data (and a contraction, so that
        A = TT([np.abs(c) for c in A.cores])        # the implicit schemes keep the states non-negative)
        A.cores[0] = A.cores[0] / (4.0 * n * max(1.0, float(np.max(np.abs(dense(A.cores))))))
    x0 = gen_tt(rng, dims, [1] * order, max_ranks(dims), cplx, 'float', nonneg=(normalize == 1))
    Am = dense(A.cores).reshape(n, n)
    xv = dense(x0.cores).reshape(n)
    I = np.eye(n)
    desc = dict(which=which, dims=dims, normalize=normalize, complex=cplx)
    scale = 1.0
    thr_kw = 0
    if normalize == 0 and which in ('explicit', 'hod') and rng.random() < 0.3:
        # a state of tiny norm with the default relative threshold: the cut is relative to the largest singular value,
        # so nothing of the state may be truncated away
        scale = rng.choice([1e-10, 1e-13])
        thr_kw = 1e-12
        x0 = scale * x0
        desc_scale = True
    else:
        desc_scale = False
    xv = dense(x0.cores).reshape(n)
    desc['tiny_state'] = desc_scale
    snap = snapshot([A, x0])
    tol = 1e-7

    def normed(v):
        return v / nrm(v, normalize) if normalize > 0 else v

    try:
        if which == 'explicit':
            hs = [rng.uniform(0.01, 0.2) for _ in range(rng.randint(1, 3))]
            kw = {}
            if rng.random() < 0.4 and order >= 1:
                # a finite cap that every exact state fits in (the largest maximal TT rank): no effective truncation
                kw['max_rank'] = max(max_ranks(dims))
                desc['max_rank'] = kw['max_rank']
            sol = ode.explicit_euler(A, x0, hs, threshold=thr_kw, normalize=normalize, progress=False, **kw)
            ref = [xv]
            for h in hs:
                ref.append(normed((I + h * Am) @ ref[-1]))
        elif which in ('implicit', 'trapezoidal'):
            hs = [rng.uniform(0.01, 0.1) for _ in range(rng.randint(1, 3))]
            if rng.random() < 0.4:      # non-monotone lists that return to an earlier value (stale cached operators)
                pool = [rng.uniform(0.01, 0.1), rng.uniform(0.1, 0.3)]
                hs = [pool[0]] + [rng.choice(pool) for _ in range(rng.randint(2, 3))]
            g = gen_tt(rng, dims, [1] * order, max_ranks(dims), cplx, 'float')
            solver = rng.choice(['als', 'mals'])          # order 1 with mals is handed to the one-site scheme (F28)
            if solver == 'mals' and order == 2 and rng.random() < 0.5:
                # two cores: the two-site scheme solves the whole system, whatever the rank of the guess
                g = gen_tt(rng, dims, [1] * order, [1, 1, 1], cplx, 'float')
                desc['guess'] = 'rank 1'
            f = ode.implicit_euler if which == 'implicit' else ode.trapezoidal_rule
            sol = f(A, x0, g, hs, repeats=2, tt_solver=solver, micro_solver=rng.choice(['solve', 'lu']), normalize=normalize, progress=False)
            ref = [xv]
            for h in hs:
                if which == 'implicit':
                    ref.append(normed(np.linalg.solve(I - h * Am, ref[-1])))
                else:
                    ref.append(normed(np.linalg.solve(I - 0.5 * h * Am, (I + 0.5 * h * Am) @ ref[-1])))
            desc['solver'] = solver
        elif which == 'hod':
            h = rng.uniform(0.01, 0.1)
            steps = rng.randint(1, 3)
            o = rng.choice([2, 4, 6, 8])
            o_arg = o - 1 if rng.random() < 0.3 else o        # an odd order is documented to be raised to the next even one
            desc['order'] = o_arg
            pv = None
            if rng.random() < 0.4:
                # a supplied previous state (not normalised by the caller): the start-up normalises it like the computed one
                pv = scale * gen_tt(rng, dims, [1] * order, max_ranks(dims), cplx, 'float')
                desc['previous_value'] = True
            sol = ode.hod(A, x0, h, steps, order=o_arg, previous_value=pv, threshold=thr_kw, normalize=normalize, progress=False)
            oph = sum(2 / math.factorial(2 * k - 1) * h ** (2 * k - 1) * np.linalg.matrix_power(Am, 2 * k - 1) for k in range(1, o // 2 + 1))
            opf = h * Am + sum(2 / math.factorial(2 * k - 1) * (h / 2) ** (2 * k - 1) * np.linalg.matrix_power(Am, 2 * k - 1) for k in range(2, o // 2 + 1))
            prev = normed(xv - opf @ ((I - 0.5 * h * Am) @ xv)) if pv is None else normed(dense(pv.cores).reshape(n))
            ref = [xv]
            for i in range(steps):
                p = prev if i == 0 else ref[i - 1]
                ref.append(normed(p + oph @ ref[i]))
        elif which == 'errors':
            hs = [rng.uniform(0.01, 0.2) for _ in range(2)]
            traj = [x0] + [gen_tt(rng, dims, [1] * order, rranks(rng, order, 2), cplx, 'float') for _ in hs]
            tv = [dense(t.cores).reshape(n) for t in traj]
            e1 = ode.errors_expl_euler(A, traj, hs)
            e2 = ode.errors_impl_euler(A, traj, hs)
            e3 = ode.errors_trapezoidal(A, traj, hs)
            for i, h in enumerate(hs):
                r1 = np.linalg.norm(tv[i + 1] - (I + h * Am) @ tv[i]) / np.linalg.norm(tv[i])
                r2 = np.linalg.norm((I - h * Am) @ tv[i + 1] - tv[i]) / np.linalg.norm(tv[i])
                r3 = np.linalg.norm((I - 0.5 * h * Am) @ tv[i + 1] - (I + 0.5 * h * Am) @ tv[i]) / np.linalg.norm((I + 0.5 * h * Am) @ tv[i])
                for got, ref_, nm in ((e1[i], r1, 'expl'), (e2[i], r2, 'impl'), (e3[i], r3, 'trapezoidal')):
                    if abs(got - ref_) > 1e-8 * (1 + abs(ref_)):
                        return 'errors_%s[%d] = %.10g is not the relative defect %.10g of the step' % (nm, i, got, ref_), desc
            return None, desc
        else:
            # adaptive: a decaying (generator-like) system keeps the controller busy for a few steps
            Ad = TT([np.abs(c) for c in A.cores])
            M = dense(Ad.cores).reshape(n, n)
            Gm = M - np.diag(np.sum(M, axis=0))
            Agen = TT(Gm.reshape(dims + dims)) if order > 0 else Ad
            xp = gen_tt(rng, dims, [1] * order, max_ranks(dims), False, 'float', nonneg=True)
            g = xp.copy()
            tend = rng.uniform(0.05, 0.5) if rng.random() < 0.6 else rng.uniform(0.002, 0.01)   # short horizons: the first step overshoots
            snap2 = snapshot([Agen, xp, g])
            sol, times = ode.adaptive_step_size(Agen, xp, g, tend, step_size_first=rng.choice([1e-3, 1e-2, 2 * tend, 10 * tend]), progress=False)
            if not unchanged([Agen, xp, g], snap2):
                return 'adaptive_step_size modified an input', desc
            if len(sol) != len(times) or sol[0] is not xp:
                return 'trajectory / time list inconsistent', desc
            if any(b <= a for a, b in zip(times, times[1:])) or times[-1] > tend * (1 + 1e-12):
                return 'accepted time points are not strictly increasing within [0, time_end]: %s' % (times,), desc
            for t in sol[1:]:
                if abs(nrm(dense(t.cores).reshape(n), 1) - 1) > 1e-8:
                    return 'adaptive state is not 1-normalised', desc
            return None, desc
    except np.linalg.LinAlgError as e:
        return None, dict(desc, skipped=repr(e))
    except Exception as e:
        return 'raised %r' % (e,), desc
    if not unchanged([A, x0], snap):
        return 'operator or initial value modified', desc
    if len(sol) != len(ref) or sol[0] is not x0:
        return 'trajectory does not consist of the initial value followed by one state per step', desc
    for k, (t, r) in enumerate(zip(sol, ref)):
        if not consistent(t):
            return 'state %d inconsistent' % k, desc
        v = dense(t.cores).reshape(n)
        if not close(v / scale, r / scale, tol):
            return 'state %d differs from the dense recurrence: max err %.2e (state scale %.0e)' % (k, float(np.max(np.abs(v - r))), scale), desc
        if k > 0 and normalize > 0 and abs(nrm(v, normalize) - 1) > 1e-8:
            return 'state %d does not have unit %d-norm' % (k, normalize), desc
    return None, desc


def run(ctx):
    quick = ctx.tier == 'quick'
    lib.stage_proof(ctx, PROP_FILES, ['Check/C09.vo'])
    n = 160 if quick else 5000
    cases, metas = [], []
    for k in range(n):
        cs = ctx.rng.getrandbits(48)
        try:
            lit, d = gen_int_case(random.Random(cs))
        except lib.InexactValue:
            ctx.skipped_inexact += 1
            continue
        except Exception as e:
            ctx.fail('integrator raised %r on a valid input' % (e,), {'gen': 'gen_int_case', 'case_seed': cs}, tags={'op': 'ode', 'raised': True, 'msg': repr(e)[:40]})
            continue
        ctx.count('scheme:' + d['which'])
        ctx.nontriv((d['which'], d['order'], d['cplx'], tuple(d['dims'])))
        if k < 2:
            ctx.sample({'case': d, 'literal': str(lit)[:300]})
        cases.append(lit)
        metas.append({'desc': {'gen': 'gen_int_case', 'case_seed': cs, 'case': d}, 'tags': {'op': d['which']}})
    bad = lib.stage_correspondence(ctx, 'schemes', REQ, 'check_C09', cases, metas)
    n_side = 200 if quick else 12000
    if bad:
        n_side *= 4
    for k in range(n_side):
        cs = ctx.rng.getrandbits(48)
        try:
            msg, desc = side_case(cs)
        except Exception as e:
            msg, desc = 'side check raised %r' % (e,), {'case_seed': cs}
        ctx.side_cases += 1
        ctx.evaluations += 1
        ctx.count('side:%s' % desc.get('which'))
        if msg:
            ctx.fail('%s: %s' % (desc.get('which'), msg), {'gen': 'side_case', 'case_seed': cs, 'case': desc}, tags={'which': desc.get('which')})
    return ctx.finish(level='proof', checker_cmd='make -C coq Props/C09.vo Check/C09.vo && coqc Props/C09.v', trusted=TRUSTED, explanation=RULE)


TRUSTED = ['Coq 8.16.1 kernel + vm_compute', 'harness (tape oracles, generators)', 'SVD value conjunct; inner solves exact (hypothesis); sqrt / norms only in the float side check',
           'float absorption t + h == t in the controller is outside (exact rational arithmetic in the theorem)', 'IEEE rounding not modelled']
RULE = ('correspondence (normalize=0, threshold=0, integer step sizes): explicit Euler and HOD(order 2, previous_value given) with SVD tape, implicit Euler / trapezoidal rule through the ALS model with solve/qr/rq tape, every produced state compared core by core; '
        'side check: dense recurrences for all four schemes (varying step lists, ALS and MALS, both micro-solvers, normalize 0/1/2, HOD orders 2-8 incl. start-up), error estimators against the relative defects, adaptive method: increasing times, inputs unchanged, 1-normalised states')


def replay(obj):
    r = obj['replay']
    if r.get('gen') == 'side_case':
        msg, desc = side_case(r['case_seed'])
        print('replay: %s' % (msg or 'OK (no failure)'))
        return 1 if msg else 0
    print('replay: see file')
    return 1
