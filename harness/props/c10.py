# C10 — splitting integrators equal the composed local propagators, at the right order
import os, numpy as np, random, warnings
warnings.filterwarnings('ignore')
import scipy.linalg
from harness import lib, oracles
from harness.lib import dense, close, consistent
from harness.props.c01 import gen_tt, rranks, snapshot, unchanged
from harness.props.c07 import max_ranks
from harness.translators import c10_gen

import scikit_tt.tensor_train as ttm
from scikit_tt.tensor_train import TT
import scikit_tt.solvers.ode as ode
lib.guard_expm(ode)

PROP_FILES = ['Props/C10.v']
REQ = ['SkTT.Check.C10']
GEN = os.path.join(lib.COQ, 'Gen', 'SplittingCoeffs.v')


class ExpmTape:
    def __init__(self, rng, cplx):
        self.rng, self.cplx, self.calls = rng, cplx, []

    def expm(self, a):
        a = np.array(a, copy=True)
        n = a.shape[0]
        out = np.array([float(self.rng.randint(-1, 1)) for _ in range(n * n)]).reshape(n, n)
        if self.cplx:
            out = out + 1j * np.array([float(self.rng.randint(-1, 1)) for _ in range(n * n)]).reshape(n, n)
        self.calls.append((a, out))
        return out.copy()


def t3_lit(a):
    return [a.shape[0], a.shape[1], a.shape[2], lib.flat_zi(a)]


def gen_components(rng, order, mode, hom, cplx):
    """single-site S_i, identities I_i, interaction factors L_i (d_i x d_i x rk_i), M_{i+1} (rk_i x d_{i+1} x d_{i+1})"""
    d0 = rng.randint(1, 2) if mode == 'int' else rng.randint(2, 3)
    dims = [d0] * order if hom else [rng.randint(1, 2) if mode == 'int' else rng.randint(2, 3) for _ in range(order)]
    rk = rng.randint(1, 2)
    rks = [rk] * order if hom else [rng.randint(1, 2) for _ in range(order)]

    # mixed dtypes (35 % of the complex cases): some of the component families S / L / M real, the others complex
    fam_c = {'S': cplx, 'L': cplx, 'M': cplx}
    if cplx and rng.random() < 0.35:
        fam_c = {k: rng.random() < 0.5 for k in 'SLM'}
        if not any(fam_c.values()):
            fam_c[rng.choice('LM')] = True

    def ent(shape, fam='S'):
        cplx = fam_c[fam]
        n = int(np.prod(shape))
        if mode == 'int':
            a = np.array([float(rng.randint(-2, 2)) for _ in range(n)]).reshape(shape)
            if cplx:
                a = a + 1j * np.array([float(rng.randint(-2, 2)) for _ in range(n)]).reshape(shape)
            return a
        a = np.array([rng.gauss(0, 1) for _ in range(n)]).reshape(shape)
        if cplx:
            a = a + 1j * np.array([rng.gauss(0, 1) for _ in range(n)]).reshape(shape)
        return a
    if hom:
        S0, L0, M0 = ent((d0, d0)), ent((d0, d0, rk), 'L'), ent((rk, d0, d0), 'M')
        S = [S0] * order
        L = [L0] * order
        M = [M0] * order
    else:
        S = [ent((dims[i], dims[i])) for i in range(order)]
        L = [ent((dims[i], dims[i], rks[i]), 'L') for i in range(order)]
        M = [None] + [ent((rks[i - 1], dims[i], dims[i]), 'M') for i in range(1, order)]
        M[0] = ent((1, dims[0], dims[0]), 'M')
    I = [np.eye(d) for d in dims]
    return dims, S, L, I, M


def call_scheme(name, hom, S, L, I, M, x0, h, n, **kw):
    f = getattr(ode, name + '_splitting')
    flat2d = kw.pop('flat2d', False)
    if flat2d and all(l.shape[2] == 1 for l in L) and all(m is None or m.shape[0] == 1 for m in M):
        # rank-one interactions handed over as plain matrices (the documented 2-D form of L and M)
        if hom:
            return f(S[0], L[0][:, :, 0].copy(), I[0], (M[1] if len(M) > 1 else M[0])[0].copy(), x0, h, n, **kw)
        return f([s.copy() for s in S], [l[:, :, 0].copy() for l in L], [i.copy() for i in I], [m[0].copy() for m in M], x0, h, n, **kw)
    if hom:
        return f(S[0], L[0].copy(), I[0], M[1].copy() if len(M) > 1 else M[0].copy(), x0, h, n, **kw)
    return f([s.copy() for s in S], [l.copy() for l in L], [i.copy() for i in I], [m.copy() for m in M], x0, h, n, **kw)


def gen_int_case(rng):
    scheme = rng.choice(['lie', 'strang'])
    order = rng.randint(2, 4)
    hom = rng.random() < 0.4
    cplx = rng.random() < 0.3
    dims, S, L, I, M = gen_components(rng, order, 'int', hom, cplx)
    x0 = gen_tt(rng, dims, [1] * order, rranks(rng, order, 2), cplx and rng.random() < 0.7, 'int')
    h = 2.0
    nsteps = rng.randint(1, 2)
    maxr = 50
    et = ExpmTape(rng, cplx)
    st = oracles.Tape(rng, rng.choice(['arb', 'triv']), cplx=cplx, lo=-1, hi=1)
    old = scipy.linalg.expm
    scipy.linalg.expm = et.expm
    snap = snapshot([x0])
    try:
        with oracles.patched(st, names=('svd',)):
            sol = call_scheme(scheme, hom, S, L, I, M, x0, h, nsteps, threshold=0, max_rank=maxr, normalize=0)
    finally:
        scipy.linalg.expm = old
    if not unchanged([x0], snap) or sol[0] is not x0:
        raise AssertionError('initial value modified / not heading the trajectory')
    ce, co = (1, 1) if scheme == 'lie' else (0.5, 1)
    sites = []
    for i in range(order):
        Mi = M[i] if M[i] is not None else np.zeros((1, dims[i], dims[i]))
        sites.append([lib.mat_lit(S[i]), lib.mat_lit(I[i]), t3_lit(L[i]), t3_lit(Mi)])
    etape = [[lib.mat_lit(a), lib.mat_lit(o)] for a, o in et.calls]
    lit = [0 if scheme == 'lie' else 1,
           [lib.cores_lit(x0.cores), sites, int(h), nsteps, [int(ce * h), int(co * h)], etape, oracles.svd_tape_lit(st.calls), maxr],
           [lib.cores_lit(t.cores) for t in sol[1:]]]
    return lit, dict(scheme=scheme, order=order, hom=hom, cplx=cplx, dims=dims)


# ---- numerical side check ---------------------------------------------------------------------------
def embed(op, i, dims, two):
    """dense operator acting on site i (and i+1) of the chain"""
    n = len(dims)
    left = int(np.prod(dims[:i])) if i > 0 else 1
    k = 2 if two else 1
    right = int(np.prod(dims[i + k:])) if i + k < n else 1
    return np.kron(np.kron(np.eye(left), op), np.eye(right))


def local_generators(dims, S, L, I, M):
    n = len(dims)
    gens = []
    for i in range(n - 1):
        G = np.kron(S[i], I[i + 1]) + sum(np.kron(L[i][:, :, k], M[i + 1][k, :, :]) for k in range(L[i].shape[2]))
        gens.append(G)
    gens.append(S[-1])
    return gens


def dense_step(scheme, tr, dims, gens, h):
    """one step as the ordered product of the local exponentials, with the coefficients and stage order
    read from the regenerated table (the dense reference uses scipy.linalg.expm)"""
    n = len(dims)
    N = int(np.prod(dims))
    sets, stages = tr[scheme + '_splitting']
    names = sorted(sets, key=lambda s: (len(s), s))
    c = 2.0 ** (1.0 / 3.0)

    def val(expr):
        return float(eval(expr.replace('^', '**'), {'c': c}))
    P = np.eye(N, dtype=complex)
    for key, start in stages:
        e_, o_ = val(sets[key][0]), val(sets[key][1])
        for i in range(start, n, 2):
            coef = e_ if i % 2 == 0 else o_
            U = scipy.linalg.expm(gens[i] * coef * h)
            P = embed(U, i, dims, i < n - 1) @ P
    return P


def side_case(seed, tr):
    rng = random.Random(seed)
    scheme = rng.choice(['lie', 'strang', 'yoshida', 'kahan_li'])
    clause = rng.choice(['step', 'step', 'order', 'norm', 'unit'])
    order = rng.randint(2, 4 if clause != 'order' else 3)
    hom = rng.random() < 0.4
    cplx = (rng.random() < 0.4 or clause == 'norm') and clause != 'unit'
    dims, S, L, I, M = gen_components(rng, order, 'float', hom, cplx)
    scale = 0.3
    S = [s * scale for s in S]
    L = [l * scale for l in L]
    if clause == 'step' and not hom and rng.random() < 0.2:
        # a weak diagonal single-site term on the last site (its propagator is within 1e-5 of the identity, not equal to it)
        S[-1] = np.diag([0.0] + [rng.uniform(2e-5, 1e-4) for _ in range(dims[-1] - 1)]).astype(S[-1].dtype)
        desc_weak = True
    else:
        desc_weak = False
    if hom:
        S = [S[0]] * order
        L = [L[0]] * order
    desc = dict(scheme=scheme, clause=clause, dims=dims, hom=hom, complex=cplx, weak_last_site=desc_weak)
    N = int(np.prod(dims))
    x0 = gen_tt(rng, dims, [1] * order, max_ranks(dims), cplx, 'float')
    if clause == 'unit':
        # "enabling normalisation returns unit-norm states": positive data and a small step so that the states stay positive
        # (the Manhattan norm of the code is the sum of the entries and presupposes non-negative tensors)
        x0 = TT([np.abs(c) + 0.5 for c in x0.cores])
    xv = dense(x0.cores).reshape(N)
    try:
        if clause == 'unit':
            nrm = rng.choice([1, 2])
            h = 0.02
            desc['normalize'] = nrm
            gens = local_generators(dims, S, L, I, M)
            sol = call_scheme(scheme, hom, S, L, I, M, x0, h, 2, threshold=1e-14, max_rank=50, normalize=nrm)
            P = dense_step(scheme, tr, dims, gens, h)
            ref = xv.astype(complex)
            for k in (1, 2):
                ref = P @ ref
                if np.min(np.real(ref)) <= 0:
                    desc['skipped'] = 'state not positive'
                    return None, desc
                ref = ref / (np.sum(ref) if nrm == 1 else np.linalg.norm(ref))
                v = dense(sol[k].cores).reshape(N)
                got = float(np.real(np.sum(v))) if nrm == 1 else float(np.linalg.norm(v))
                if abs(got - 1.0) > 1e-8:
                    return 'normalize=%d: state %d has %s-norm %.10g, not 1' % (nrm, k, nrm, got), desc
                if not close(v, ref, 1e-8):
                    return 'normalize=%d: state %d is not the normalised dense product' % (nrm, k), desc
            # the returned states have unit norm also when the rank truncation of the step is active (only the norm is asserted)
            if order >= 3:
                mr = rng.randint(1, 2)
                desc['truncated_max_rank'] = mr
                x1 = gen_tt(rng, dims, [1] * order, max_ranks(dims), cplx, 'float')
                x1 = TT([np.abs(c) + 0.5 for c in x1.cores])
                sol = call_scheme(scheme, hom, S, L, I, M, x1, 0.05, 2, threshold=0, max_rank=mr, normalize=nrm)
                for k in (1, 2):
                    v = dense(sol[k].cores).reshape(N)
                    got = float(np.real(np.sum(v))) if nrm == 1 else float(np.linalg.norm(v))
                    if abs(got - 1.0) > 1e-8:
                        return 'normalize=%d with max_rank=%d: state %d has %s-norm %.10g, not 1' % (nrm, mr, k, nrm, got), desc
            return None, desc
        if clause == 'norm':
            # skew-Hermitian generator: S_i := i * Hermitian, L (x) M := i * (Hermitian (x) Hermitian)
            def herm(a):
                return 0.5 * (a + a.conj().T)
            S = [1j * herm(s) for s in S]
            L = [np.stack([1j * herm(l[:, :, k]) for k in range(l.shape[2])], axis=2) for l in L]
            M = [np.stack([herm(m[k]) for k in range(m.shape[0])], axis=0) for m in M]
            if hom:
                S, L, M = [S[0]] * order, [L[0]] * order, [M[1 if order > 1 else 0]] * order
            nrm = rng.choice([0, 2])
            sol = call_scheme(scheme, hom, S, L, I, M, x0, 0.1, 2, threshold=1e-14, max_rank=50, normalize=nrm)
            v = dense(sol[-1].cores).reshape(N)
            target = 1.0 if nrm == 2 else np.linalg.norm(xv)
            if abs(np.linalg.norm(v) - target) > 1e-7 * (1 + target):
                return '2-norm not preserved for a skew-Hermitian generator (normalize=%d): %.10g vs %.10g' % (nrm, np.linalg.norm(v), target), desc
            return None, desc
        gens = local_generators(dims, S, L, I, M)
        if clause == 'step':
            flat2d = rng.random() < 0.5
            desc['flat2d'] = flat2d
            h = rng.uniform(0.05, 0.3)
            nsteps = rng.randint(1, 2)
            sc = 1.0
            thr_step = 1e-14
            if rng.random() < 0.25:
                # a state of tiny norm with the default relative threshold: cuts are relative to the largest singular value
                sc, thr_step = 1e-10, 1e-12
                x0 = sc * x0
                xv = dense(x0.cores).reshape(N)
            desc['state_scale'] = sc
            sol = call_scheme(scheme, hom, S, L, I, M, x0, h, nsteps, threshold=thr_step, max_rank=50, normalize=0, flat2d=flat2d)
            P = dense_step(scheme, tr, dims, gens, h)
            ref = xv.astype(complex)
            if len(sol) != nsteps + 1 or sol[0] is not x0:
                return 'trajectory shape', desc
            for k in range(1, nsteps + 1):
                ref = P @ ref
                v = dense(sol[k].cores).reshape(N)
                if not consistent(sol[k]) or not close(v / sc, ref / sc, 1e-8):
                    return 'state %d differs from the dense product of local exponentials: max err %.2e' % (k, float(np.max(np.abs(v - ref)))), desc
            return None, desc
        # order of convergence towards expm of the assembled operator
        G = sum(embed(g, i, dims, i < order - 1) for i, g in enumerate(gens))
        T = 0.4
        exact = scipy.linalg.expm(G * T) @ xv
        errs = []
        for nst in (4, 8):
            sol = call_scheme(scheme, hom, S, L, I, M, x0, T / nst, nst, threshold=1e-15, max_rank=50, normalize=0)
            errs.append(float(np.linalg.norm(dense(sol[-1].cores).reshape(N) - exact)))
        desc['errors'] = errs
        want = {'lie': 1, 'strang': 2, 'yoshida': 4, 'kahan_li': 6}[scheme]
        if errs[1] > 1e-11 and errs[0] > 1e-11:
            rate = np.log2(errs[0] / errs[1])
            desc['rate'] = float(rate)
            if rate < want - 0.6:
                return 'observed order %.2f below %d (errors %s)' % (rate, want, errs), desc
        return None, desc
    except Exception as e:
        return 'raised %r' % (e,), desc


def run(ctx):
    quick = ctx.tier == 'quick'
    tr = None
    try:
        tr, changed = c10_gen.generate(lib.REPO, GEN)
        if changed:
            ctx.notes.append('Gen/SplittingCoeffs.v regenerated: differs from the committed version')
    except c10_gen.TranslateError as e:
        ctx.fail('translator cannot read ode.py: %s' % e, {'stage': 'translate', 'error': str(e)}, tags={'stage': 'translate'}, found_input=False)
    proof_ok = lib.stage_proof(ctx, PROP_FILES, ['Check/C10.vo'])
    n = 120 if quick else 4000
    cases, metas = [], []
    for k in range(n):
        cs = ctx.rng.getrandbits(48)
        try:
            lit, d = gen_int_case(random.Random(cs))
        except lib.InexactValue:
            ctx.skipped_inexact += 1
            continue
        except Exception as e:
            ctx.fail('splitting integrator raised %r on a valid input' % (e,), {'gen': 'gen_int_case', 'case_seed': cs}, tags={'op': 'splitting', 'raised': True, 'msg': repr(e)[:40]})
            continue
        ctx.count('scheme:' + d['scheme'])
        ctx.nontriv((d['scheme'], d['order'], d['hom'], d['cplx']))
        if k < 2:
            ctx.sample({'case': d, 'literal': str(lit)[:300]})
        cases.append(lit)
        metas.append({'desc': {'gen': 'gen_int_case', 'case_seed': cs, 'case': d}, 'tags': {'op': d['scheme']}})
    bad = lib.stage_correspondence(ctx, 'stages', REQ, 'check_C10_full', cases, metas) if proof_ok else []
    if tr is not None:
        n_side = 160 if quick else 9000
        if bad or not proof_ok:
            n_side *= 4
        for k in range(n_side):
            cs = ctx.rng.getrandbits(48)
            try:
                msg, desc = side_case(cs, tr)
            except Exception as e:
                msg, desc = 'side check raised %r' % (e,), {'case_seed': cs}
            ctx.side_cases += 1
            ctx.evaluations += 1
            ctx.count('side:%s/%s' % (desc.get('scheme'), desc.get('clause')))
            if msg:
                ctx.fail('%s: %s' % (desc.get('scheme'), msg), {'gen': 'side_case', 'case_seed': cs, 'case': desc}, tags={'scheme': desc.get('scheme'), 'clause': desc.get('clause')})
    return ctx.finish(level='proof', checker_cmd='python harness/translators/c10_gen.py (regenerate Gen/SplittingCoeffs.v) && make -C coq Props/C10.vo Check/C10.vo && coqc Props/C10.v',
                      trusted=TRUSTED, explanation=RULE)


TRUSTED = ['Coq 8.16.1 kernel + vm_compute', 'translator harness/translators/c10_gen.py (coefficients and stage sequences read from the source text)',
           'axioms (stdlib Reals): sig_forall_dec, sig_not_dec, functional_extensionality_dep, classic (Yoshida conditions over R)',
           'expm and SVD are oracles; global convergence orders are side-check claims (BCH / composition theory not formalised)', 'IEEE rounding not modelled']
RULE = ('obligations: coefficient conditions re-proved against the regenerated table (Strang symmetric with weight 1; Yoshida 2w1+w0=1, 2w1^3+w0^3=0 with c^3=2; Kahan-Li palindromic, sum 1, cubic and quintic sums < 1e-25) and the two-site update theorem; '
        'correspondence: lie/strang on integer components (homogeneous and site-dependent, real/complex, chains 2-4), expm and SVD answered from tapes, stage order from the regenerated table; '
        'side check: one/two steps of all four schemes against the dense ordered product of scipy.linalg.expm factors, observed convergence order against expm of the assembled operator, 2-norm preservation / unit norm for skew-Hermitian generators')


def replay(obj):
    r = obj['replay']
    if r.get('gen') == 'side_case':
        tr = c10_gen.translate(open(os.path.join(lib.REPO, 'scikit_tt', 'solvers', 'ode.py')).read())
        msg, desc = side_case(r['case_seed'], tr)
        print('replay: %s' % (msg or 'OK (no failure)'))
        return 1 if msg else 0
    print('replay: see file')
    return 1
