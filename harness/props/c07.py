# C07 — ALS/MALS linear solvers: energy descent, fixed point, exactness at full rank
import numpy as np, random, warnings
warnings.filterwarnings('ignore')
from harness import lib, oracles
from harness.lib import dense, close, consistent
from harness.props.c01 import gen_tt, rranks, shape_tags, snapshot, unchanged
from harness.props.c03 import thr_lit

import scikit_tt.tensor_train as ttm
from scikit_tt.tensor_train import TT
import scikit_tt.solvers.sle as sle

PROP_FILES = ['Props/C07.v']
REQ = ['SkTT.Check.C07']


def tape_lit(calls):
    out = []
    for name, ins, outs in calls:
        if name == 'solve':
            out.append([0, lib.mat_lit(ins[0]), lib.mat_lit(ins[1].reshape(-1, 1)), lib.mat_lit(np.asarray(outs[0]).reshape(-1, 1))])
        elif name == 'qr':
            out.append([1, lib.mat_lit(ins[0]), lib.mat_lit(outs[0]), lib.mat_lit(outs[1])])
        elif name == 'rq':
            out.append([2, lib.mat_lit(ins[0]), lib.mat_lit(outs[1]), lib.mat_lit(outs[0])])
        elif name == 'svd':
            u, s, v = outs
            out.append([3, lib.mat_lit(ins[0]), len(s), lib.mat_lit(u), lib.flat_zi(s), lib.mat_lit(v)])
        else:
            raise ValueError(name)
    return out


def nonsym_op(rng, dims, ranks, cplx):
    """integer operator whose cores are not symmetric under x <-> y (so that row/column mix-ups show)"""
    for _ in range(20):
        A = gen_tt(rng, dims, dims, ranks, cplx, 'int')
        if all(c.shape[1] == 1 or not np.array_equal(c, np.transpose(c, (0, 2, 1, 3))) for c in A.cores):
            return A
    return A


def gen_int_case(rng):
    which = rng.choice(['als', 'als', 'mals'])
    order = rng.choice([1, 2, 3, 3, 4])           # order 1 with mals: handed to the one-site scheme (F28)
    dims = [rng.randint(1, 2) if order >= 4 else rng.randint(1, 3) for _ in range(order)]
    cplx = rng.random() < 0.35
    A = nonsym_op(rng, dims, rranks(rng, order, 2), cplx)
    x = gen_tt(rng, dims, [1] * order, rranks(rng, order, 2), cplx and rng.random() < 0.7, 'int')
    b = gen_tt(rng, dims, [1] * order, rranks(rng, order, 2), cplx and rng.random() < 0.7, 'int')
    reps = rng.randint(1, 2)
    solver = rng.choice(['solve', 'lu'])
    kind = rng.choice(['arb', 'arb', 'triv'])
    tape = oracles.Tape(rng, kind, cplx=cplx and rng.random() < 0.7, lo=-1, hi=1)
    snap = snapshot([A, x, b])
    thr, maxr = 0, np.inf
    with oracles.patched(tape, names=('svd', 'qr', 'rq', 'solve', 'lu_factor', 'lu_solve')):
        if which == 'als':
            sol = sle.als(A, x, b, repeats=reps, solver=solver)
        else:
            thr = rng.choice([0, 0.25, 0.5])
            maxr = rng.choice([np.inf, 1, 2])
            sol = sle.mals(A, x, b, repeats=reps, solver=solver, threshold=thr,
                           max_rank=(np.int64(maxr) if maxr != np.inf and rng.random() < 0.5 else maxr))
    if not unchanged([A, x, b], snap):
        raise AssertionError('solver modified an argument')
    lit = [1 if which == 'als' else 2,
           [lib.cores_lit(A.cores), lib.cores_lit(x.cores), lib.cores_lit(b.cores), reps, thr_lit(thr), [] if maxr == np.inf else [int(maxr)], tape_lit(tape.calls)],
           lib.tt_out_lit(sol)]
    sens = order >= 3 and max(x.ranks) >= 2
    return lit, dict(which=which, order=order, dims=dims, solver=solver, kind=kind, cplx=cplx, calls=len(tape.calls), sensitive=sens)


# ---- numerical side check ---------------------------------------------------------------------------
def hpd_problem(rng, order=None, cplx=None):
    order = order or rng.randint(1, 4)
    dims = [rng.randint(1, 3) for _ in range(order)]
    cplx = (rng.random() < 0.4) if cplx is None else cplx
    B = gen_tt(rng, dims, dims, rranks(rng, order, 2), cplx, 'float')
    BB = B @ B.transpose(conjugate=True)
    if not isinstance(BB, TT):       # all dims 1: scalar collapse in __matmul__
        return None
    A = BB + (0.5 + rng.random()) * ttm.eye(dims)
    b = gen_tt(rng, dims, [1] * order, rranks(rng, order, 3), cplx, 'float')
    n = int(np.prod(dims))
    Am = dense(A.cores).reshape(n, n)
    bv = dense(b.cores).reshape(n)
    xs = np.linalg.solve(Am, bv)
    return dims, cplx, A, b, Am, bv, xs


def energy(Am, xs, t):
    e = dense(t.cores).reshape(-1) - xs
    return float(np.real(np.conj(e) @ (Am @ e)))


def max_ranks(dims):
    d = len(dims)
    return [1] + [min(int(np.prod(dims[:k])), int(np.prod(dims[k:]))) for k in range(1, d)] + [1]


def feasible_ranks(ranks, dims):
    """clip a rank vector so that every unfolding of every core can have full rank (r_i <= n_i r_{i+1}, r_{i+1} <= r_i n_i);
    otherwise the frames of the alternating schemes are rank deficient and the micro systems singular"""
    ranks = list(ranks)
    changed = True
    while changed:
        changed = False
        for i in range(len(dims)):
            if ranks[i] > dims[i] * ranks[i + 1]:
                ranks[i] = dims[i] * ranks[i + 1]
                changed = True
            if ranks[i + 1] > ranks[i] * dims[i]:
                ranks[i + 1] = ranks[i] * dims[i]
                changed = True
    return ranks


def side_case(seed):
    rng = random.Random(seed)
    p = hpd_problem(rng)
    if p is None:
        return None, {'kind': 'degenerate'}
    dims, cplx, A, b, Am, bv, xs = p
    order = len(dims)
    solver = rng.choice(['solve', 'lu'])
    which = rng.choice(['als', 'mals'])
    clause = rng.choice(['descent', 'fixed', 'fullrank', 'graded'])
    desc = dict(which=which, dims=dims, complex=cplx, solver=solver, clause=clause)
    run = (lambda g, r, **kw: sle.als(A, g, b, repeats=r, solver=solver)) if which == 'als' else \
          (lambda g, r, **kw: sle.mals(A, g, b, repeats=r, solver=solver, **kw))
    tol = 1e-8 * (1 + float(np.real(np.conj(xs) @ (Am @ xs))))
    snap = snapshot([A, b])
    try:
        if clause == 'descent':
            # guesses with ranks above the maximal TT ranks make the micro systems singular (the theorems are
            # conditional on solvable micro systems): stay within the maximal ranks
            mr_ = max_ranks(dims)
            ranks = feasible_ranks([min(a_, b_) for a_, b_ in zip(rranks(rng, order, 3), mr_)], dims)
            g = gen_tt(rng, dims, [1] * order, ranks, cplx, 'float')
            kw = {}
            trunc = False
            if which == 'mals' and rng.random() < 0.3:
                kw = {'max_rank': rng.randint(1, 2)}
                if rng.random() < 0.5:
                    kw['max_rank'] = np.int64(kw['max_rank'])        # NumPy integers are integers
                trunc = True
                desc['max_rank'] = kw['max_rank']
            e0 = energy(Am, xs, g)
            es = []
            sols = []
            for r in (1, 2, 3):
                s = run(g, r, **kw)
                sols.append(s)
                es.append(energy(Am, xs, s))
            desc['energies'] = [e0] + es
            for s in sols:
                if not consistent(s) or list(s.row_dims) != dims or any(c != 1 for c in s.col_dims):
                    return 'result does not have the dimensions of the right-hand side', desc
                if which == 'als' and any(a > c for a, c in zip(s.ranks, g.ranks)):
                    return 'ALS raised a rank: %s -> %s' % (g.ranks, s.ranks), desc
                if trunc and max(s.ranks) > kw['max_rank']:
                    return 'MALS exceeded max_rank: %s' % (s.ranks,), desc
            tags = {'solver': which, 'max_rank_active': trunc}
            if es[0] > e0 + tol:
                return ('energy-norm error larger than that of the initial guess: %.6g > %.6g' % (es[0], e0)), dict(desc, tags=dict(tags, clause='descent'))
            if es[1] > es[0] + tol or es[2] > es[1] + tol:
                return ('more sweeps made the energy-norm error larger: %s' % (es,)), dict(desc, tags=dict(tags, clause='monotone'))
        elif clause == 'graded':
            # a solution with a graded singular spectrum (1, 1e-2, 1e-4 on its bonds): with maximal ranks one sweep is exact to
            # rounding, small singular directions included, for a relative cut of 1e-6.  The guess is right-orthonormal, so that
            # the local singular values mals cuts on are those of the solution (frames orthonormal on both sides)
            nrng = np.random.default_rng(rng.getrandbits(32))
            xg = np.zeros(dims, dtype=complex if cplx else float)
            for k_ in range(3):
                term = np.ones([1] * order)
                for i_, d_ in enumerate(dims):
                    v_ = nrng.standard_normal(d_) + (1j * nrng.standard_normal(d_) if cplx else 0)
                    term = term * v_.reshape([d_ if j_ == i_ else 1 for j_ in range(order)])
                xg = xg + (1e-2 ** k_) * term / np.linalg.norm(term)
            for k_ in range(1, order):       # the cut must be clear of every singular-value ratio of the solution
                sv_ = np.linalg.svd(xg.reshape(int(np.prod(dims[:k_])), -1), compute_uv=False)
                if any(1e-10 < v_ / sv_[0] < 1e-5 for v_ in sv_):
                    return None, dict(desc, skipped='singular value of the graded solution too close to the cut')
            xg = xg.reshape(-1)
            bg = TT((Am @ xg).reshape(dims + [1] * order))
            g = gen_tt(rng, dims, [1] * order, max_ranks(dims), cplx, 'float').ortho_right()
            s = sle.als(A, g, bg, repeats=1, solver=solver) if which == 'als' else sle.mals(A, g, bg, repeats=1, solver=solver, threshold=1e-6)
            err = float(np.linalg.norm(dense(s.cores).reshape(-1) - xg)) / float(np.linalg.norm(xg))
            cond = float(np.linalg.cond(Am))
            if err > 1e-10 * max(1.0, cond / 100):
                return 'graded solution, maximal ranks: relative error %.2e after one sweep (condition number %.1e)' % (err, cond), desc
        elif clause == 'fixed':
            g = TT(xs.reshape(dims + [1] * order))
            s = run(g, rng.randint(1, 2))
            if not close(dense(s.cores).reshape(-1), xs, 1e-7):
                return 'exact solution given as initial guess is not returned', desc
        else:
            mr = max_ranks(dims)
            g = gen_tt(rng, dims, [1] * order, mr, cplx, 'float')
            s = run(g, 1)
            if not close(dense(s.cores).reshape(-1), xs, 1e-6):
                return 'guess of maximal ranks: one sweep does not return the exact solution (err %.2e)' % float(np.max(np.abs(dense(s.cores).reshape(-1) - xs))), desc
    except np.linalg.LinAlgError as e:
        return None, dict(desc, skipped='singular micro system: %r' % (e,))
    except Exception as e:
        return 'raised %r' % (e,), desc
    if not unchanged([A, b], snap):
        return 'operator or right-hand side modified', desc
    return None, desc


def f16b_witness():
    """known finding F16b, fixed input: the exact solution (TT rank 2) as initial guess and max_rank=1 -- the truncation after
    the two-site solve returns a rank-1 train, which is worse than the guess"""
    nrng = np.random.default_rng(16)
    G = nrng.standard_normal((4, 4))
    Am = G @ G.T / 4 + np.eye(4)
    A = TT(Am.reshape(2, 2, 2, 2))
    xs = np.array([1.0, 0.3, -0.2, 0.9])                 # as a 2 x 2 matrix: rank 2
    b = TT((Am @ xs).reshape(2, 2, 1, 1))
    g = TT(xs.reshape(2, 2, 1, 1))
    e0 = energy(Am, xs, g)
    s = sle.mals(A, g, b, repeats=1, max_rank=1)
    e1 = energy(Am, xs, s)
    if e1 > e0 + 1e-8:
        return 'mals(max_rank=1) started at the exact solution returns an iterate with energy-norm error %.4g (guess: %.1g)' % (e1, e0)
    return None


def run(ctx):
    quick = ctx.tier == 'quick'
    lib.stage_proof(ctx, PROP_FILES, ['Check/C07.vo'])
    n = 160 if quick else 5000
    cases, metas = [], []
    for k in range(n):
        cs = ctx.rng.getrandbits(48)
        try:
            lit, d = gen_int_case(random.Random(cs))
        except lib.InexactValue:
            ctx.skipped_inexact += 1
            continue
        except Exception as e:
            ctx.fail('solver raised %r on a valid input' % (e,), {'gen': 'gen_int_case', 'case_seed': cs}, tags={'op': 'solver', 'raised': True})
            continue
        ctx.count('op:' + d['which'])
        ctx.count('oracle_calls', d['calls'])
        if d['sensitive']:
            ctx.nontriv((d['which'], d['order'], d['solver'], d['kind'], d['cplx'], tuple(d['dims'])))
        if k < 2:
            ctx.sample({'case': d, 'literal': str(lit)[:300]})
        cases.append(lit)
        metas.append({'desc': {'gen': 'gen_int_case', 'case_seed': cs, 'case': d}, 'tags': {'op': d['which']}})
    bad = lib.stage_correspondence(ctx, 'solvers', REQ, 'check_C07', cases, metas)
    n_side = 250 if quick else 15000
    if bad:
        n_side *= 4
    seeds = [500] + [ctx.rng.getrandbits(48) for _ in range(n_side)]       # 500: replay of known finding F16
    for cs in seeds:
        try:
            msg, desc = side_case(cs)
        except Exception as e:
            msg, desc = 'side check raised %r' % (e,), {'case_seed': cs}
        ctx.side_cases += 1
        ctx.evaluations += 1
        ctx.count('side:%s/%s' % (desc.get('which'), desc.get('clause')))
        if desc.get('skipped'):
            ctx.count('side:skipped-singular')
        if msg:
            tags = desc.pop('tags', None) or {'op': desc.get('which'), 'clause': desc.get('clause')}
            ctx.fail('%s: %s' % (desc.get('which'), msg), {'gen': 'side_case', 'case_seed': cs, 'case': desc}, tags=tags)
    msg = f16b_witness()
    ctx.side_cases += 1
    ctx.evaluations += 1
    if msg:
        ctx.fail('mals: ' + msg, {'gen': 'f16b_witness'}, tags={'solver': 'mals', 'max_rank_active': True, 'clause': 'descent'})
    return ctx.finish(level='proof', checker_cmd='make -C coq Props/C07.vo Check/C07.vo && coqc Props/C07.v', trusted=TRUSTED, explanation=RULE)


TRUSTED = ['Coq 8.16.1 kernel + vm_compute', 'harness (tape oracles for solve/lu/qr/rq/svd, generators)',
           'oracle hypotheses: the micro solve returns a solution of the micro system; QR/RQ/SVD value conjuncts', 'the drivers (loop bounds, stack indices) are the Coq glue of Check/C07.v, validated by correspondence',
           'IEEE rounding and conditioning not modelled']
RULE = ('correspondence: integer operators with non-symmetric cores, entries -3..3, orders 1-4, real and complex, both micro-solvers, 1-2 sweeps, tape answers for every solve/lu/qr/rq/svd call (arbitrary or exact); the model must hand every oracle the same matrix and return the same cores and ranks; '
        'non-trivial = order >= 3 and a solution rank >= 2 (so that left stacks, row/column indices and conjugation matter); side check: Hermitian positive-definite TT operators, energy-norm error per repeat count, fixed point, maximal-rank exactness, dims and ranks')


def replay(obj):
    r = obj['replay']
    if r.get('gen') == 'side_case':
        msg, desc = side_case(r['case_seed'])
        print('replay: %s' % (msg or 'OK (no failure)'))
        return 1 if msg else 0
    print('replay: see file')
    return 1
