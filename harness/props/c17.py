# C17 — tensor-based DMD equals matrix DMD of the unfolded snapshots
import numpy as np, random, warnings
import scipy.linalg
warnings.filterwarnings('ignore')
from harness import lib, oracles
from harness.lib import dense, consistent
from harness.props.c01 import gen_tt, rranks, snapshot, unchanged
from harness.props.c03 import thr_lit
from harness.props.c05 import UnitTape
from harness.props.c07 import max_ranks

import scikit_tt.tensor_train as ttm
from scikit_tt.tensor_train import TT
import scikit_tt.data_driven.tdmd as tdmd

PROP_FILES = ['Props/C17.v']
REQ = ['SkTT.Check.C17']


class DmdTape(UnitTape):
    """unit singular values (exact reciprocals) and eigenvalues +-2^e (exact reciprocals, distinct, real)"""
    def eig(self, a, b=None, **kw):
        a = np.array(a, copy=True)
        n = a.shape[0]
        pool = [s * 2.0 ** e for e in range(0, 4) for s in (1, -1)]
        self.rng.shuffle(pool)
        w = np.array(pool[:n])
        v = self._rint((n, n))
        self.calls.append(('eig', [a], [w, v]))
        return w.astype(complex), v.astype(complex)


def gen_int_case(rng):
    which = rng.choice(['exact', 'standard'])
    order = rng.randint(2, 4)
    dims = [rng.randint(1, 3) for _ in range(order - 1)] + [rng.randint(1, 4)]        # last mode: snapshots
    x = gen_tt(rng, dims, [1] * order, rranks(rng, order, 2), False, 'int')
    y = gen_tt(rng, dims, [1] * order, rranks(rng, order, 2), False, 'int')
    thr = rng.choice([0, 0, 0.5])
    ol, or_ = rng.random() < 0.7, rng.random() < 0.7
    tape = DmdTape(rng, rng.choice(['arb', 'arb', 'triv']))
    snap = snapshot([x, y])
    f = tdmd.tdmd_exact if which == 'exact' else tdmd.tdmd_standard
    saved = scipy.linalg.eig
    with oracles.patched(tape, names=('svd', 'eig')):
        lam, modes = f(x, y, threshold=thr, ortho_l=ol, ortho_r=or_)
    if not unchanged([x, y], snap):
        raise AssertionError('tdmd modified an input tensor train')
    if not consistent(modes):
        raise AssertionError('tdmd returned an inconsistent TT')
    svds = [c for c in tape.calls if c[0] == 'svd']
    eigs = [c for c in tape.calls if c[0] == 'eig']
    assert len(eigs) == 1
    w, v = eigs[0][2]
    lam_r = np.real(lam)
    cores = [c.copy() for c in modes.cores]
    if which == 'exact':
        cores[-1] = cores[-1] * lam_r[None, :, None, None]          # undo the reciprocal (exact: eigenvalues are +-2^e)
    log = [lib.mat_lit(c[1][0]) for c in svds]
    lit = [1 if which == 'exact' else 2,
           [lib.cores_lit(x.cores), lib.cores_lit(y.cores), thr_lit(thr), 1 if ol else 0, 1 if or_ else 0, oracles.svd_tape_lit(svds),
            [lib.mat_lit(eigs[0][1][0]), [int(t) for t in w], lib.mat_lit(v)]],
           [[int(t) for t in lam_r], lib.cores_lit(cores), log]]
    if np.max(np.abs(np.imag(lam))) != 0:
        raise AssertionError('eigenvalues changed by tdmd')
    return lit, dict(which=which, order=order, dims=dims, thr=thr, ol=ol, or_=or_, k=len(w))


# ---- numerical side check ---------------------------------------------------------------------------
def side_case(seed):
    rng = random.Random(seed)
    which = rng.choice(['exact', 'standard'])
    order = rng.randint(2, 4)
    sdims = [rng.randint(1, 4) for _ in range(order - 1)]
    n = int(np.prod(sdims))
    m = rng.randint(1, 7)
    dims = sdims + [m]
    # snapshots of a linear system with a low-dimensional subspace (distinct real / complex eigenvalues)
    k = rng.randint(1, min(n, m, 4))
    B = np.array([[rng.uniform(-1, 1) for _ in range(k)] for _ in range(n)])
    A = np.array([[rng.uniform(-1, 1) for _ in range(k)] for _ in range(k)])
    Z = np.array([[rng.uniform(-1, 1) for _ in range(m)] for _ in range(k)])
    X = B @ Z
    Y = B @ (A @ Z)
    noise = rng.choice([0.0, 0.0, 1e-3])
    if noise:
        X = X + noise * np.array([[rng.uniform(-1, 1) for _ in range(m)] for _ in range(n)])
    sc = rng.choice([1.0, 1.0, 1e-3, 1e3])       # a common scale of the snapshots changes neither eigenvalues nor the relative cut
    X, Y = sc * X, sc * Y
    thr = rng.choice([0.0, 1e-10, 1e-2])
    ol, or_ = rng.random() < 0.7, rng.random() < 0.7
    desc = dict(which=which, dims=dims, k=k, thr=thr, ortho_l=ol, ortho_r=or_, noise=noise, scale=sc)
    try:
        x = TT(X.reshape(dims + [1] * order))
        y = TT(Y.reshape(dims + [1] * order))
        # the flags may only be switched off for parts that are orthonormal already (that is their purpose): TT(full) is
        # left-orthonormal by construction; without ortho_r the last core has to be right-orthonormal beforehand
        intfirst = rng.random() < 0.15
        if intfirst:
            # mixed dtypes: an integer-typed first core (selection / count data) in front of float cores
            ol = True
            desc['ortho_l'] = True
            desc['int_first_core'] = True
            if thr > 1e-6:          # a genuine cut on a train that is not left-orthonormal is the domain of finding F30 (C05)
                thr = 1e-10
                desc['thr'] = thr
            x = TT([np.rint(3 * x.cores[0]).astype(np.int64)] + [c.copy() for c in x.cores[1:]])
            y = TT([np.rint(3 * y.cores[0]).astype(np.int64)] + [c.copy() for c in y.cores[1:]])
            X = np.real(dense(x.cores)).reshape(n, m)
            Y = np.real(dense(y.cores)).reshape(n, m)
            if not np.any(X):
                desc['skipped'] = 'zero data'
                return None, desc
        pre = (not or_) or rng.random() < 0.4
        desc['time_core_orthonormal'] = pre
        if pre:             # the weights sit in the last spatial core, the time core is right-orthonormal already
            x = x.ortho_right(start_index=order - 1, end_index=order - 1)
        # matrix DMD with the same relative cut
        U, s, Vh = np.linalg.svd(X, full_matrices=False)
        cut = thr if thr > 0 else 1e-13
        ratios = s / s[0]
        if any(abs(r_ - cut) < 10 * 1e-13 + 0.2 * cut * (thr > 0) for r_ in ratios) and thr > 0:
            desc['skipped'] = 'singular value too close to the cut'
            return None, desc
        if thr == 0 and s[-1] / s[0] < 1e-9:
            desc['skipped'] = 'rank-deficient data with threshold 0 (noise singular values kept)'
            return None, desc
        keep = ratios > thr if thr > 0 else np.ones(len(s), dtype=bool)
        U, s, Vh = U[:, keep], s[keep], Vh[keep, :]
        Mred = U.T @ Y @ Vh.T @ np.diag(1 / s)
        ref_w, ref_W = np.linalg.eig(Mred)
        snap = snapshot([x, y])
        f = tdmd.tdmd_exact if which == 'exact' else tdmd.tdmd_standard
        lam, modes = f(x, y, threshold=thr, ortho_l=ol, ortho_r=or_)
        if not unchanged([x, y], snap):
            return 'tdmd modified an input tensor train', desc
        if not consistent(modes) or list(modes.row_dims[:-1]) != sdims or modes.row_dims[-1] != len(lam):
            return 'modes are not a consistent TT with the spatial dimensions and one slot per eigenvalue', desc
        if len(lam) != len(ref_w):
            return 'number of DMD eigenvalues %d differs from matrix DMD %d' % (len(lam), len(ref_w)), desc
        scale = 1 + float(np.max(np.abs(ref_w)))
        # eigenvalues as multisets
        rem = list(ref_w)
        for l in lam:
            j = int(np.argmin([abs(l - r_) for r_ in rem]))
            if abs(l - rem[j]) > 1e-6 * scale:
                return 'eigenvalue %s is not an eigenvalue of matrix DMD %s' % (l, ref_w), desc
            rem.pop(j)
        # descending order (numpy's lexicographic complex order)
        srt = np.sort_complex(np.array(lam))[::-1]
        if np.max(np.abs(srt - np.array(lam))) > 0:
            return 'eigenvalues are not returned in descending order', desc
        gap = min([abs(a - b) for i, a in enumerate(ref_w) for b in ref_w[i + 1:]] + [1.0])
        if gap < 1e-3 * scale or np.min(np.abs(ref_w)) < 1e-3 * scale:
            desc['skipped'] = 'modes not compared (clustered or tiny eigenvalues)'
            return None, desc
        Mo = dense(modes.cores).reshape(n, len(lam))
        if which == 'exact':
            op = Y @ Vh.T @ np.diag(1 / s)           # exact modes: Y V S^-1 w / lambda, eigenvectors of A_dmd = Y X^+
            for q, l in enumerate(lam):
                v = Mo[:, q]
                if np.linalg.norm(v) < 1e-12:
                    return 'zero mode', desc
                res = np.linalg.norm(op @ (U.T @ v) - l * v) / (np.linalg.norm(v) * scale)
                if res > 1e-6:
                    return 'exact DMD mode %d is not an eigenvector of Y X^+ (residual %.2e)' % (q, res), desc
        else:
            for q, l in enumerate(lam):
                v = Mo[:, q]
                wq = U.T @ v
                if np.linalg.norm(v - U @ wq) > 1e-8 * (1 + np.linalg.norm(v)):
                    return 'projected DMD mode %d does not lie in the range of U' % q, desc
                res = np.linalg.norm(Mred @ wq - l * wq) / (np.linalg.norm(wq) * scale + 1e-300)
                if res > 1e-6:
                    return 'projected DMD mode %d = U w with w not an eigenvector of the reduced matrix (residual %.2e)' % (q, res), desc
        return None, desc
    except np.linalg.LinAlgError as e:
        desc['skipped'] = repr(e)
        return None, desc
    except Exception as e:
        return 'raised %r' % (e,), desc


def run(ctx):
    quick = ctx.tier == 'quick'
    lib.stage_proof(ctx, PROP_FILES, ['Check/C17.vo'])
    n = 150 if quick else 5000
    cases, metas = [], []
    for k in range(n):
        cs = ctx.rng.getrandbits(48)
        try:
            lit, d = gen_int_case(random.Random(cs))
        except lib.InexactValue:
            ctx.skipped_inexact += 1
            continue
        except Exception as e:
            ctx.fail('tdmd raised %r on a valid input' % (e,), {'gen': 'gen_int_case', 'case_seed': cs}, tags={'which': 'int', 'symptom': 'raised'})
            continue
        ctx.count('routine:' + d['which'])
        ctx.count('order:%d' % d['order'])
        ctx.nontriv(tuple(sorted((k_, str(v)) for k_, v in d.items())))
        if k < 2:
            ctx.sample({'case': d, 'literal': str(lit)[:300]})
        cases.append(lit)
        metas.append({'desc': {'gen': 'gen_int_case', 'case_seed': cs, 'case': d}, 'tags': {'which': d['which']}})
    bad = lib.stage_correspondence(ctx, 'tdmd', REQ, 'check_C17', cases, metas)
    n_side = 300 if quick else 15000
    if bad:
        n_side *= 3
    for k in range(n_side):
        cs = ctx.rng.getrandbits(48)
        try:
            msg, desc = side_case(cs)
        except Exception as e:
            msg, desc = 'side check raised %r' % (e,), {'case_seed': cs}
        ctx.side_cases += 1
        ctx.evaluations += 1
        ctx.count('side:%s' % desc.get('which'))
        if desc.get('skipped'):
            ctx.count('side_skipped:%s' % desc.get('which'))
        if msg:
            ctx.fail('%s: %s' % (desc.get('which'), msg), {'gen': 'side_case', 'case_seed': cs, 'case': desc}, tags={'which': desc.get('which')})
    return ctx.finish(level='proof', checker_cmd='make -C coq Props/C17.vo Check/C17.vo && coqc Props/C17.v', trusted=TRUSTED, explanation=RULE)


TRUSTED = ['Coq 8.16.1 kernel + vm_compute', 'harness (tape oracles, generators)', 'SVD and eig are oracles (C05 hypotheses for the pseudoinverse; eigenpairs as returned)',
           'np.argsort on complex eigenvalues: modelled for distinct real eigenvalues, complex ordering by the side check', 'IEEE rounding not modelled']
RULE = ('correspondence: tdmd_exact / tdmd_standard on integer snapshot trains (orders 2-4, thresholds 0 / 0.5, all four ortho flag combinations) with svd (unit singular values) and eig (distinct eigenvalues +-2^e) '
        'answered from a tape: the SVD inputs, the reduced matrix handed to eig, the sorted eigenvalues and every core of the modes compared with the Coq model; '
        'side check: eigenvalues as a multiset against SVD-based matrix DMD of the unfolded snapshots with the same relative cut, descending order, exact modes are eigenvectors of Y X^+, '
        'projected modes are U w with w an eigenvector of the reduced matrix, inputs unchanged, modes consistent')


def replay(obj):
    r = obj['replay']
    if r.get('gen') == 'side_case':
        msg, desc = side_case(r['case_seed'])
        print('replay: %s' % (msg or 'OK (no failure)'))
        return 1 if msg else 0
    print('replay: see file')
    return 1
