# C11 — TDVP and Krylov propagators: exact on representable dynamics, conservative, inputs untouched
import numpy as np, random, warnings
import scipy.linalg
warnings.filterwarnings('ignore')
from harness import lib, oracles
from harness.lib import dense, close, consistent
from harness.props.c01 import gen_tt, rranks, snapshot, unchanged
from harness.props.c03 import thr_lit
from harness.props.c07 import nonsym_op, max_ranks, feasible_ranks

import scikit_tt.tensor_train as ttm
from scikit_tt.tensor_train import TT
import scikit_tt.solvers.ode as ode
lib.guard_expm(ode)

PROP_FILES = ['Props/C11.v']
REQ = ['SkTT.Check.C11']


# ---- tape: expm_multiply joins the LAPACK tape ------------------------------------------------------
class ExpmTape(oracles.Tape):
    def expm(self, a, b, *args, **kw):
        a = np.array(a, copy=True)
        b = np.array(b, copy=True)
        y = self._rint(b.shape).astype(complex)
        self.calls.append(('expm', [a, b], [y]))
        return y.copy()


def tape_lit(calls):
    out = []
    for name, ins, outs in calls:
        if name == 'qr':
            out.append([1, lib.mat_lit(ins[0]), lib.mat_lit(outs[0]), lib.mat_lit(outs[1])])
        elif name == 'rq':
            out.append([2, lib.mat_lit(ins[0]), lib.mat_lit(outs[1]), lib.mat_lit(outs[0])])
        elif name == 'svd':
            u, s, v = outs
            out.append([3, lib.mat_lit(ins[0]), len(s), lib.mat_lit(u), lib.flat_zi(s), lib.mat_lit(v)])
        elif name == 'expm':
            out.append([4, lib.mat_lit(ins[0]), lib.mat_lit(ins[1].reshape(-1, 1)), lib.mat_lit(outs[0].reshape(-1, 1))])
        else:
            raise ValueError(name)
    return out


def gen_int_case(rng):
    which = rng.choice(['1site', '2site'])
    order = rng.choice([1, 2, 3, 3]) if which == '1site' else rng.choice([2, 3, 3])
    dims = [rng.randint(1, 2) for _ in range(order)]
    if all(d == 1 for d in dims):
        dims[rng.randrange(order)] = 2
    cplx = rng.random() < 0.4
    xr = rranks(rng, order, 2)
    if which == '2site' and rng.random() < 0.7:      # room for several singular values, so that truncation rules matter
        dims = [2] * order
        xr = [1] + [2] * (order - 1) + [1]
    A = nonsym_op(rng, dims, rranks(rng, order, 2), cplx)
    x0 = gen_tt(rng, dims, [1] * order, xr, cplx and rng.random() < 0.7, 'int')
    hh = rng.choice([1, 1, 2])
    steps = rng.randint(1, 2)
    tape = ExpmTape(rng, 'arb', cplx=True, lo=-1, hi=1)
    snap = snapshot([A, x0])
    thr, maxr = 0, np.inf
    saved = ode.expm_multiply
    ode.expm_multiply = tape.expm
    try:
        with oracles.patched(tape, names=('svd', 'qr', 'rq')):
            if which == '1site':
                sol = ode.tdvp1site(A, x0, float(2 * hh), steps)
            else:
                thr = rng.choice([0, 0.25, 0.5, 0.3])
                maxr = rng.choice([np.inf, np.inf, 1, 2, 3])
                sol = ode.tdvp2site(A, x0, float(2 * hh), steps, threshold=thr, max_rank=maxr)
    finally:
        ode.expm_multiply = saved
    if not unchanged([A, x0], snap):
        raise AssertionError('integrator modified an argument')
    if sol[0] is not x0 or len(sol) != steps + 1:
        raise AssertionError('trajectory is not the initial value (by identity) followed by one state per step')
    n0 = order - 1                       # svd calls of the initial ortho_right
    t0 = oracles.svd_tape_lit(tape.calls[:n0])
    lit = [1 if which == '1site' else 2,
           [lib.cores_lit(A.cores), lib.cores_lit(x0.cores), hh, steps, thr_lit(thr), [] if maxr == np.inf else [int(maxr)], t0, tape_lit(tape.calls[n0:])],
           [lib.cores_lit(t.cores) for t in sol]]
    return lit, dict(which=which, order=order, dims=dims, cplx=cplx, hh=hh, steps=steps, calls=len(tape.calls))


# ---- numerical side check ---------------------------------------------------------------------------
def herm_op(rng, dims, cplx):
    order = len(dims)
    B = gen_tt(rng, dims, dims, rranks(rng, order, 2), cplx, 'float')
    return B + B.transpose(conjugate=True)


def side_case(seed):
    rng = random.Random(seed)
    clause = rng.choice(['exact1', 'exact2', 'conserve1', 'krylov', 'hybrid', 'lowrank_shape'])
    order = rng.randint(1, 4)
    if clause == 'exact2':
        order = max(order, 2)           # a two-site scheme presupposes two sites
    dims = [rng.randint(1, 3) if order < 4 else rng.randint(1, 2) for _ in range(order)]
    if all(d == 1 for d in dims):
        dims[rng.randrange(order)] = 2
    n = int(np.prod(dims))
    cplx = rng.random() < 0.5
    H = herm_op(rng, dims, cplx)
    Hm = dense(H.cores).reshape(n, n)
    h = rng.uniform(0.02, 0.4)
    steps = rng.randint(1, 3)
    mr = max_ranks(dims)
    desc = dict(which=clause, dims=dims, complex=cplx, h=h, steps=steps)
    tags = dict(which=clause)

    def ret(msg, **more):
        tags.update(more)
        return msg, desc, tags

    def evolve(xv, k):
        return scipy.linalg.expm(-1j * k * h * Hm) @ xv

    try:
        if clause in ('exact1', 'exact2', 'hybrid'):
            xc = cplx or rng.random() < 0.3
            x0 = gen_tt(rng, dims, [1] * order, mr, xc, 'float')         # maximal ranks, arbitrary gauge
            xv = dense(x0.cores).reshape(n)
            snap = snapshot([H, x0])
            normalize = rng.choice([0, 0, 2])
            desc['normalize'] = normalize
            try:
                if clause == 'exact1':
                    sol = ode.tdvp1site(H, x0, h, steps, normalize=normalize)
                elif clause == 'exact2':
                    thr = rng.choice([0, 1e-12])
                    desc['threshold'] = thr
                    sol = ode.tdvp2site(H, x0, h, steps, threshold=thr, max_rank=rng.choice([50, max(mr)]), normalize=normalize)
                else:
                    tags['which'] = 'hybrid'
                    sol = ode.tdvp(H, x0, h, steps, threshold=1e-12, max_rank=rng.choice([50, max(mr)]), normalize=normalize)
            except IndexError as e:
                if clause == 'hybrid':
                    return ret('hybrid tdvp raised %r at maximal ranks' % (e,), symptom='IndexError')
                raise
            if not unchanged([H, x0], snap):
                return ret('operator or initial state modified')
            if len(sol) != steps + 1 or sol[0] is not x0:
                return ret('trajectory is not the initial state followed by one state per step')
            ref = xv
            for k in range(1, steps + 1):
                ref = scipy.linalg.expm(-1j * h * Hm) @ ref
                if normalize == 2:
                    ref = ref / np.linalg.norm(ref)
                if not consistent(sol[k]):
                    return ret('state %d inconsistent' % k)
                v = dense(sol[k].cores).reshape(n)
                err = float(np.max(np.abs(v - ref)))
                if err > 1e-8 * (1 + float(np.max(np.abs(ref)))):
                    sym = 'wrong'
                    if clause == 'hybrid' and order == 1 and np.allclose(v, xv if normalize == 0 else xv / np.linalg.norm(xv)):
                        sym = 'order1_unevolved'
                    return ret('state %d differs from exp(-i t H) x0 at maximal ranks: max err %.2e' % (k, err), symptom=sym)
            return ret(None)
        if clause == 'conserve1':
            ranks = feasible_ranks([min(a, b) for a, b in zip(rranks(rng, order, 2), mr)], dims)
            x0 = gen_tt(rng, dims, [1] * order, ranks, cplx or rng.random() < 0.3, 'float')
            desc['ranks'] = ranks
            xv = dense(x0.cores).reshape(n)
            snap = snapshot([H, x0])
            sol = ode.tdvp1site(H, x0, h, steps)
            if not unchanged([H, x0], snap):
                return ret('operator or initial state modified')
            if len(sol) != steps + 1 or sol[0] is not x0:
                return ret('trajectory is not the initial state followed by one state per step')
            n0 = float(np.linalg.norm(xv))
            e0 = float(np.real(np.conj(xv) @ (Hm @ xv)))
            scale = 1 + abs(e0) + n0 ** 2 * float(np.max(np.abs(Hm)))
            for k in range(1, steps + 1):
                v = dense(sol[k].cores).reshape(n)
                if list(sol[k].ranks) != list(sol[1].ranks) or any(a > b for a, b in zip(sol[k].ranks, ranks)):
                    return ret('one-site scheme changed the ranks: %s from %s' % (sol[k].ranks, ranks))
                if abs(float(np.linalg.norm(v)) - n0) > 1e-9 * (1 + n0):
                    return ret('norm not conserved by the one-site scheme: %.12g -> %.12g' % (n0, float(np.linalg.norm(v))), symptom='norm')
                ek = float(np.real(np.conj(v) @ (Hm @ v)))
                if abs(ek - e0) > 1e-9 * scale:
                    return ret('energy not conserved by the one-site scheme: %.12g -> %.12g' % (e0, ek), symptom='energy')
            return ret(None)
        if clause == 'krylov':
            if n < 2:
                return ret(None, skipped='n<2')
            x0 = gen_tt(rng, dims, [1] * order, [min(a, b) for a, b in zip(rranks(rng, order, 3), mr)], cplx or rng.random() < 0.3, 'float')
            if rng.random() < 0.5:
                x0 = (1 / x0.norm()) * x0
            xv = dense(x0.cores).reshape(n)
            # the Krylov space spans the state space iff x0 has a component in every eigenspace and the spectrum is simple
            w, V = np.linalg.eigh(Hm)
            comp = np.abs(np.conj(V.T) @ xv) / np.linalg.norm(xv)
            gap = float(np.min(np.diff(w))) / (1 + float(np.max(np.abs(w))))
            if gap < 1e-2 or float(np.min(comp)) < 1e-2 or n > 12:
                return ret(None, skipped='krylov space not robustly full')
            snap = snapshot([H, x0])
            normalize = rng.choice([0, 0, 2])
            desc['normalize'] = normalize
            sol = ode.krylov(H, x0, n, h, threshold=1e-14, max_rank=50, normalize=normalize)
            if not unchanged([H, x0], snap):
                return ret('operator or initial state modified')
            ref = evolve(xv, 1)
            if normalize == 2:
                ref = ref / np.linalg.norm(ref)
            v = dense(sol.cores).reshape(n)
            err = float(np.max(np.abs(v - ref)))
            if not consistent(sol) or err > 1e-6 * (1 + float(np.max(np.abs(ref)))):
                return ret('krylov with full Krylov dimension differs from exp(-i t H) x0: max err %.2e' % err, symptom='wrong')
            return ret(None)
        # lowrank_shape: all drivers at non-maximal ranks / active truncation: inputs untouched, trajectory shape, consistent states
        ranks = feasible_ranks([min(a, b) for a, b in zip(rranks(rng, order, 2), mr)], dims)
        x0 = gen_tt(rng, dims, [1] * order, ranks, cplx, 'float')
        drv = rng.choice(['tdvp1site', 'tdvp2site', 'tdvp', 'krylov'])
        desc['driver'] = drv
        snap = snapshot([H, x0])
        maxr = rng.choice([1, 2, 50])
        try:
            if drv == 'tdvp1site':
                sol = ode.tdvp1site(H, x0, h, steps, normalize=rng.choice([0, 2]))
            elif drv == 'tdvp2site':
                if order < 2:
                    return ret(None, skipped='order1')
                sol = ode.tdvp2site(H, x0, h, steps, threshold=rng.choice([0, 1e-12, 1e-2]), max_rank=maxr, normalize=rng.choice([0, 2]))
            elif drv == 'tdvp':
                tags['which'] = 'hybrid'
                sol = ode.tdvp(H, x0, h, steps, threshold=rng.choice([1e-12, 1e-2]), max_rank=maxr)
            else:
                if n < 2:
                    return ret(None, skipped='n<2')
                x1 = (1 / x0.norm()) * x0
                snap = snapshot([H, x1])
                try:
                    # a Krylov dimension beyond the dimension of the invariant subspace of x1 breaks the Lanczos recurrence down
                    # (zero residual -> division by zero / orthonormalisation of the zero tensor, the latter being finding F14 of C04)
                    sol = [x1, ode.krylov(H, x1, min(rng.randint(2, 4), n), h, max_rank=maxr)]
                except (ZeroDivisionError, FloatingPointError, IndexError) as e:
                    return ret(None, skipped='lanczos breakdown: %r' % (e,))
                x0, steps = x1, 1
        except IndexError as e:
            if drv == 'tdvp':
                return ret('hybrid tdvp raised %r' % (e,), symptom='IndexError')
            raise
        except ZeroDivisionError as e:
            return ret(None, skipped='lanczos breakdown')
        if not unchanged([H, x0], snap):
            return ret('operator or initial state modified by %s' % drv)
        if len(sol) != steps + 1 or sol[0] is not x0:
            return ret('%s: trajectory is not the initial state followed by one state per step' % drv)
        for k, t in enumerate(sol):
            if not consistent(t) or list(t.row_dims) != dims:
                return ret('%s: state %d inconsistent' % (drv, k))
            if drv in ('tdvp2site', 'tdvp', 'krylov') and k > 0 and max(t.ranks) > maxr and maxr < max(x0.ranks + [1]) + 0:
                pass
        if drv == 'tdvp2site':
            for t in sol[1:]:
                if max(t.ranks) > max(maxr, 1):
                    return ret('tdvp2site: rank cap %d exceeded: %s' % (maxr, t.ranks))
        return ret(None)
    except np.linalg.LinAlgError as e:
        return ret(None, skipped=repr(e))
    except Exception as e:
        return ret('raised %r' % (e,), symptom='raised')


def run(ctx):
    quick = ctx.tier == 'quick'
    lib.stage_proof(ctx, PROP_FILES, ['Check/C11.vo'])
    n = 160 if quick else 5000
    cases, metas = [], []
    for k in range(n):
        cs = ctx.rng.getrandbits(48)
        try:
            lit, d = gen_int_case(random.Random(cs))
        except lib.InexactValue:
            ctx.skipped_inexact += 1
            continue
        except Exception as e:
            ctx.fail('integrator raised %r on a valid input' % (e,), {'gen': 'gen_int_case', 'case_seed': cs}, tags={'which': 'int', 'symptom': 'raised'})
            continue
        ctx.count('scheme:' + d['which'])
        ctx.count('order:%d' % d['order'])
        ctx.nontriv((d['which'], d['order'], d['cplx'], tuple(d['dims'])))
        if k < 2:
            ctx.sample({'case': d, 'literal': str(lit)[:300]})
        cases.append(lit)
        metas.append({'desc': {'gen': 'gen_int_case', 'case_seed': cs, 'case': d}, 'tags': {'which': d['which']}})
    bad = lib.stage_correspondence(ctx, 'tdvp', REQ, 'check_C11', cases, metas)
    n_side = 260 if quick else 15000
    if bad:
        n_side *= 3
    for k in range(n_side):
        cs = ctx.rng.getrandbits(48)
        try:
            msg, desc, tags = side_case(cs)
        except Exception as e:
            msg, desc, tags = 'side check raised %r' % (e,), {'case_seed': cs}, {}
        ctx.side_cases += 1
        ctx.evaluations += 1
        ctx.count('side:%s' % desc.get('which'))
        if tags.get('skipped'):
            ctx.count('side_skipped:%s' % desc.get('which'))
        if msg:
            ctx.fail('%s: %s' % (desc.get('which'), msg), {'gen': 'side_case', 'case_seed': cs, 'case': desc}, tags=tags)
    return ctx.finish(level='proof', checker_cmd='make -C coq Props/C11.vo Check/C11.vo && coqc Props/C11.v', trusted=TRUSTED, explanation=RULE)


TRUSTED = ['Coq 8.16.1 kernel + vm_compute', 'harness (tape oracles incl. expm_multiply, generators)',
           'matrix exponential, QR/RQ/SVD are oracles: the theorems assume unitarity / commutation of the propagator and orthonormal frames as hypotheses',
           'exactness at maximal ranks and Lanczos exactness are decided by the float side check (search), not by a theorem', 'IEEE rounding not modelled']
RULE = ('correspondence: tdvp1site / tdvp2site (step 2*hh, Gaussian-integer data, thresholds 0/0.25/0.5, caps inf/1/2) with expm_multiply, qr, rq, svd answered from a tape: every effective operator and vector '
        'handed to expm_multiply, every matrix handed to qr/rq/svd and every state of the trajectory compared with the Coq model; '
        'side check: exactness against scipy.linalg.expm(-i t H) x0 at maximal ranks in arbitrary gauge (1-site, 2-site, hybrid), norm and energy conservation of the one-site scheme at low rank, '
        'Krylov with full dimension (unit and non-unit initial norm), inputs unchanged and trajectory shape for all four drivers under truncation')


def replay(obj):
    r = obj['replay']
    if r.get('gen') == 'side_case':
        msg, desc, tags = side_case(r['case_seed'])
        print('replay: %s' % (msg or 'OK (no failure)'))
        return 1 if msg else 0
    print('replay: see file')
    return 1
