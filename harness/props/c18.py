# C18 — tensor-based EDMD matches matrix EDMD and treats index sets independently
import numpy as np, random, warnings
warnings.filterwarnings('ignore')
from harness import lib, oracles
from harness.lib import dense, consistent
from harness.props.c03 import thr_lit
from harness.props.c15 import rand_fun, rand_x, table_lit
from harness.props.c16 import psi_matrix

import scikit_tt.tensor_train as ttm
from scikit_tt.tensor_train import TT
import scikit_tt.data_driven.transform as tdt
import scikit_tt.data_driven.tedmd as ted

PROP_FILES = ['Props/C18.v']
REQ = ['SkTT.Check.C18']
E = 12


class EdmdTape(oracles.Tape):
    """thin SVDs with singular values 2^e (e <= 12, so that the fixed 1e-3 cut of _reduced_matrix bites sometimes);
    eig with distinct real eigenvalues at distinct distances from 1"""
    def svd(self, a, full_matrices=True, compute_uv=True, **kw):
        u, s, v = super().svd(a, full_matrices=full_matrices, **kw)
        if self.rng.random() < 0.35 and len(s) > 1:
            s = s.copy()
            s[-1] = 1.0
            s[0] = 2.0 ** self.rng.randint(8, E)
            name, ins, outs = self.calls[-1]
            self.calls[-1] = (name, ins, [outs[0], s, outs[2]])
        return u, s.copy(), v

    def np_eig(self, a):
        a = np.array(a, copy=True)
        n = a.shape[0]
        ts = list(range(0, n + 2))
        self.rng.shuffle(ts)
        w = np.array([1.0 + t * self.rng.choice([1, -1]) for t in ts[:n]])
        v = self._rint((n, n))
        self.calls.append(('eig', [a], [w, v]))
        return w.astype(complex), v.astype(complex)


def tables(x, basis):
    m = x.shape[1]
    return [np.array([[float(basis[i][k](x[:, j])) for j in range(m)] for k in range(len(basis[i]))]) for i in range(len(basis))]


def rand_pairs(rng, m, npairs):
    out = []
    for _ in range(npairs):
        n = rng.randint(1, m)
        kind = rng.choice(['shift', 'random'])
        if kind == 'shift' and m >= 2:
            n = rng.randint(1, m - 1)
            lag = rng.randint(1, m - n)
            xi = np.arange(0, n)
            yi = xi + lag
        else:
            xi = np.array(sorted(rng.sample(range(m), n)))
            yi = np.array([rng.randrange(m) for _ in range(n)])
        out.append((xi, yi))
    return out


def gen_int_case(rng):
    d = rng.randint(1, 2)
    m = rng.randint(1, 5)
    x = rand_x(rng, d, m, 'int')
    p = rng.randint(1, 3)
    basis = [[rand_fun(rng, d, 'int') for _ in range(rng.randint(1, 2))] for _ in range(p)]
    tabs = tables(x, basis)
    thr = rng.choice([0, 0.25, 0.5])
    maxr = rng.choice([np.inf, np.inf, 1, 2])
    npairs = rng.choice([1, 1, 2, 3])
    pairs = rand_pairs(rng, m, npairs)
    tape = EdmdTape(rng, 'arb', lo=-1, hi=1)
    xs = x.copy()
    with oracles.patched(tape, names=('svd', 'np_eig')):
        if npairs == 1 and rng.random() < 0.5:
            ev, et = ted.amuset_hosvd(x, pairs[0][0], pairs[0][1], basis, threshold=thr, max_rank=maxr)
            ev, et = [ev], [et]
            listcall = False
        else:
            ev, et = ted.amuset_hosvd(x, [a for a, _ in pairs], [b for _, b in pairs], basis, threshold=thr, max_rank=maxr)
            if npairs == 1:
                ev, et = [ev], [et]
            listcall = True
    if not np.array_equal(x, xs):
        raise AssertionError('data matrix modified')
    calls = tape.calls
    hos = calls[:p]
    rest = calls[p:]
    assert len(rest) == 2 * npairs and all(c[0] == 'svd' for c in hos)
    plit, elit = [], []
    for i, (xi, yi) in enumerate(pairs):
        sv, eg = rest[2 * i], rest[2 * i + 1]
        assert sv[0] == 'svd' and eg[0] == 'eig'
        w, v = eg[2]
        if not consistent(et[i]):
            raise AssertionError('inconsistent eigentensor')
        cores = [c.copy() for c in et[i].cores]
        cores[-1] = cores[-1] * 2.0 ** E
        plit.append([[int(t) for t in xi], [int(t) for t in yi], oracles.svd_tape_lit([sv])[0], [lib.mat_lit(eg[1][0] * 2.0 ** E), [int(t) for t in w], lib.mat_lit(v)]])
        elit.append([[int(t) for t in ev[i]], lib.cores_lit(cores)])
    lit = [1, [m, [table_lit(t) for t in tabs], thr_lit(thr), [] if maxr == np.inf else [int(maxr)], oracles.svd_tape_lit(hos), plit, E], elit]
    if len(set(map(id, et))) != len(et):
        raise AssertionError('the same TT object returned for different index-set pairs')
    return lit, dict(d=d, m=m, p=p, thr=thr, maxr=str(maxr), npairs=npairs, listcall=listcall)


# ---- numerical side check ---------------------------------------------------------------------------
def matrix_edmd(P, xi, yi):
    Px, Py = P[:, xi], P[:, yi]
    U, s, Vh = np.linalg.svd(Px.T, full_matrices=False)        # Psi_x^T = U S Vh
    ratios = s / s[0]
    keep = ratios > 1e-3
    # the cut is decided on singular values that agree with the code's to ~1e-15 * s[0]: only a narrow band around 1e-3 is undecidable
    near = bool(np.any(np.abs(np.log10(np.maximum(ratios, 1e-300)) + 3) < 0.1))
    # kept directions with small singular values make the eigenvalues of the EDMD matrix ill-conditioned: then only the NUMBER
    # of returned eigenvalues (the cut itself) is compared, not their values
    matrix_edmd.illcond = bool(np.any(np.abs(np.log10(np.maximum(ratios, 1e-300)) + 3) < 1.0)) and not bool(np.all(ratios > 1e-2))
    pinv = Vh[keep].T @ np.diag(1 / s[keep]) @ U[:, keep].T
    return pinv @ Py.T, int(np.sum(keep)), near, ratios


def side_case(seed):
    rng = random.Random(seed)
    variant = rng.choice(['hosvd', 'hosvd', 'hocur'])
    d = rng.randint(1, 3)
    p = rng.randint(1, 3)
    basis = [[rand_fun(rng, d, 'float') for _ in range(rng.randint(1, 3))] for _ in range(p)]
    N = int(np.prod([len(b) for b in basis]))
    m = rng.randint(1, 12)
    x = rand_x(rng, d, m, 'float')
    npairs = rng.choice([1, 1, 2, 3])
    pairs = rand_pairs(rng, m, npairs)
    if rng.random() < 0.3:
        # a linear system with a complex-conjugate pair close to 1 in real part but farther from 1 than a real eigenvalue:
        # ordering by |lambda - 1| differs from ordering by real part; linear observables make EDMD exact
        th = rng.uniform(0.3, 0.6)
        rho = rng.uniform(0.85, 1.0)
        lam_r = rng.uniform(0.55, 0.8) * (rho * np.cos(th))
        A = np.zeros((3, 3))
        A[:2, :2] = rho * np.array([[np.cos(th), -np.sin(th)], [np.sin(th), np.cos(th)]])
        A[2, 2] = lam_r
        T = np.array([[rng.uniform(-1, 1) for _ in range(3)] for _ in range(3)]) + 2 * np.eye(3)
        A = T @ A @ np.linalg.inv(T)
        d, m = 3, rng.randint(5, 8)
        x = np.zeros((3, m))
        x[:, 0] = [rng.uniform(0.5, 1.5) for _ in range(3)]
        for t in range(1, m):
            x[:, t] = A @ x[:, t - 1]
        basis = [[tdt.Identity(0), tdt.Identity(1), tdt.Identity(2)], [tdt.ConstantFunction(0)]]
        p, N = 2, 3
        pairs = [(np.arange(0, m - 1), np.arange(1, m))]
        if rng.random() < 0.5:
            pairs.append((np.arange(0, m - 2), np.arange(2, m)))
        npairs = len(pairs)
    if variant == 'hosvd' and m >= 3 and rng.random() < 0.25:
        # nearly coinciding snapshots: singular values of Psi_x spread over the decades around the fixed relative cut 1e-3
        eps = 10 ** rng.uniform(-5, -1.5)
        for j in range(1, m, 2):
            x[:, j] = x[:, j - 1] + eps * np.array([rng.uniform(-1, 1) for _ in range(d)])
    ityped = False
    if variant == 'hosvd' and basis[0][0].__class__ is not tdt.Identity and rng.random() < 0.15:
        # integer-valued snapshots handed over as an int64 array (lattice points, counts)
        x = np.rint(2 * x).astype(np.int64)
        ityped = True
    desc = dict(which=variant, d=d, p=p, N=N, m=m, npairs=npairs, sizes=[len(a) for a, _ in pairs], int_typed=ityped)
    try:
        P = psi_matrix(tables(x.astype(float), basis))
        xs = x.copy()
        kw = dict(threshold=1e-12) if variant == 'hosvd' else dict(max_rank=1000)
        if variant == 'hocur' and rng.random() < 0.4:
            kw = dict(max_rank=[1] + [1000] * p + [1])         # per-bond list; must survive the calls
        mr_keep = list(kw['max_rank']) if isinstance(kw.get('max_rank'), list) else None
        f = ted.amuset_hosvd if variant == 'hosvd' else ted.amuset_hocur
        sv = np.linalg.svd(P, compute_uv=False)
        if sv[0] == 0 or any(not np.any(P[:, a_]) for a_, _ in pairs):
            desc['skipped'] = 'zero data'
            return None, desc
        if variant == 'hocur':
            # the cross approximation is exact only if it may keep every rank; tiny problems only
            if m > 8 or sv[-1] < 1e-6 * sv[0]:
                desc['skipped'] = 'hocur: not an exact-representation case'
                return None, desc
        if sv[-1] / sv[0] < 1e-9 and sv[-1] / sv[0] > 1e-14:
            desc['skipped'] = 'numerically rank-deficient data'
            return None, desc
        ev_l, et_l = f(x, [a for a, _ in pairs], [b for _, b in pairs], basis, **kw)
        if npairs == 1:
            ev_l, et_l = [ev_l], [et_l]
        if not np.array_equal(x, xs):
            return 'data matrix modified', desc
        if mr_keep is not None and kw['max_rank'] != mr_keep:
            return 'the list handed in as max_rank was modified: %s -> %s' % (mr_keep, kw['max_rank']), desc
        if variant == 'hosvd' and rng.random() < 0.3:
            # optional outputs: every returned tensor train is consistent
            out = ted.amuset_hosvd(x, pairs[0][0], pairs[0][1], basis, threshold=1e-12, ef_tf=rng.random() < 0.5, st_tf=True)
            for o_ in out:
                if isinstance(o_, TT) and not consistent(o_):
                    return 'amuset_hosvd(st_tf=True) returned an inconsistent tensor train (row_dims %s, core shapes %s)' % (o_.row_dims, [c.shape for c in o_.cores]), desc
            # the flags only add outputs: eigenvalues and eigentensors are those of the plain call
            ev0, et0 = ted.amuset_hosvd(x, pairs[0][0], pairs[0][1], basis, threshold=1e-12)
            if np.shape(out[0]) != np.shape(ev0) or np.max(np.abs(np.asarray(out[0]) - np.asarray(ev0)), initial=0) > 1e-9:
                return 'amuset_hosvd(st_tf=True): eigenvalues differ from the call without the flag', desc
            Ta, Tb = dense(out[1].cores), dense(et0.cores)
            if Ta.shape != Tb.shape or np.max(np.abs(Ta - Tb), initial=0) > 1e-7 * (1 + np.max(np.abs(Tb), initial=0)):
                return 'amuset_hosvd(st_tf=True): eigentensors differ from the call without the flag', desc
        if len(ev_l) != npairs or len(et_l) != npairs:
            return 'list call returned %d results for %d pairs' % (len(ev_l), npairs), desc
        if len(set(map(id, et_l))) != npairs:
            return 'the same TT object returned for different index-set pairs', desc
        for i, (xi, yi) in enumerate(pairs):
            ev_s, et_s = f(x, xi, yi, basis, **kw)
            if not consistent(et_l[i]) or not consistent(et_s):
                return 'eigentensor is not a consistent TT (pair %d)' % i, desc
            if np.shape(ev_s) != np.shape(ev_l[i]) or np.max(np.abs(np.asarray(ev_s) - np.asarray(ev_l[i]))) > 1e-9:
                return 'eigenvalues of pair %d differ between the list call and the single call' % i, desc
            Tl, Ts = dense(et_l[i].cores), dense(et_s.cores)
            if Tl.shape != Ts.shape or np.max(np.abs(Tl - Ts)) > 1e-7 * (1 + np.max(np.abs(Ts))):
                return 'eigentensor of pair %d differs between the list call and the single call' % i, desc
            K, k, near, ratios = matrix_edmd(P, xi, yi)
            if near:
                desc['skipped'] = 'singular value near the fixed 1e-3 cut'
                continue
            ev = np.asarray(ev_l[i])
            if len(ev) != k:
                return 'pair %d: %d eigenvalues returned, matrix EDMD keeps rank %d' % (i, len(ev), k), desc
            if matrix_edmd.illcond:
                desc['values_skipped'] = 'ill-conditioned EDMD matrix (kept singular values below 1e-2 s_0): only the rank of the cut compared'
                continue
            ref = np.linalg.eigvals(K)
            ref = ref[np.argsort(-np.abs(ref))]
            if ityped and any(abs(a_ - b_) < 1e-3 for ia, a_ in enumerate(ref) for b_ in ref[ia + 1:] if abs(a_) > 1e-3):
                desc['skipped'] = 'clustered spectrum of integer data (defective eigenvalues are computed as rings)'
                continue
            # a defective zero eigenvalue of multiplicity k is computed as a ring of radius ~ eps^(1/k): only eigenvalues clearly
            # away from zero are matched one by one; the rest must be small on both sides
            nz = [r_ for r_ in ref if abs(r_) > 1e-3]
            scale = 1 + max([abs(r_) for r_ in ref] + [0])
            rem = list(ev)
            # every non-zero EDMD eigenvalue's real part is among the returned ones
            for r_ in nz:
                j = int(np.argmin([abs(np.real(r_) - e_) for e_ in rem])) if rem else -1
                if j < 0 or abs(np.real(r_) - rem[j]) > 1e-6 * scale:
                    return 'pair %d: non-zero EDMD eigenvalue %s has no counterpart in %s' % (i, r_, ev), desc
                rem.pop(j)
            # ordered by the distance of the (complex) eigenvalue to 1: match every returned real part with a reference
            # eigenvalue (conjugate partners have the same real part and the same distance) and look at the distances
            pool = list(ref)
            dists = []
            for e_ in ev:
                j = int(np.argmin([abs(np.real(r_) - e_) for r_ in pool]))
                dists.append(abs(pool[j] - 1))
                pool.pop(j)
            reals = sorted(np.real(ref))
            sep = min([b_ - a_ for a_, b_ in zip(reals, reals[1:]) if b_ - a_ > 1e-9 * scale] + [1.0])
            # returned values are real parts: reference eigenvalues with (nearly) equal real parts but different distances to 1
            # (exact degeneracies of integer data) cannot be told apart -- no ordering verdict then
            ambiguous = any(abs(np.real(a_) - np.real(b_)) <= 1e-5 * scale and abs(abs(a_ - 1) - abs(b_ - 1)) > 1e-6 * scale
                            for ia, a_ in enumerate(ref) for b_ in ref[ia + 1:])
            if not ambiguous and sep > 1e-5 * scale and np.any(np.diff(dists) < -1e-4 * scale):
                return 'pair %d: eigenvalues not ordered by |lambda - 1| of the complex eigenvalues: %s (distances %s)' % (i, ev, dists), desc
            if any(abs(e_) > 2e-3 * scale for e_ in rem):
                return 'pair %d: returned eigenvalues %s beyond the non-zero EDMD spectrum' % (i, rem), desc
            # ordered by distance to 1 (on the complex eigenvalues; decidable here when the spectrum is real)
            if np.max(np.abs(np.imag(ref))) < 1e-10:
                dist = np.abs(ev - 1)
                if np.any(np.diff(dist) < -1e-8 * scale):
                    return 'pair %d: eigenvalues not ordered by distance to 1: %s' % (i, ev), desc
                gaps = [abs(a - b) for ii, a in enumerate(ev) for b in ev[ii + 1:]]
                if (not gaps or min(gaps) > 1e-4 * scale):
                    Xi = Tl.reshape(N, len(ev))
                    for q, l in enumerate(ev):
                        v = Xi[:, q]
                        nv = np.linalg.norm(v)
                        if nv < 1e-12:
                            return 'pair %d: zero eigentensor' % i, desc
                        res = np.linalg.norm(K @ v - l * v) / (nv * scale)
                        if res > 1e-5:
                            return 'pair %d: eigentensor %d violates the EDMD eigen-equation (residual %.2e)' % (i, q, res), desc
        return None, desc
    except np.linalg.LinAlgError as e:
        desc['skipped'] = repr(e)
        return None, desc
    except Exception as e:
        return 'raised %r' % (e,), desc


def run(ctx):
    quick = ctx.tier == 'quick'
    lib.stage_proof(ctx, PROP_FILES, ['Check/C18.vo'])
    n = 150 if quick else 5000
    cases, metas = [], []
    for k in range(n):
        cs = ctx.rng.getrandbits(48)
        try:
            lit, d = gen_int_case(random.Random(cs))
        except lib.InexactValue:
            ctx.skipped_inexact += 1
            continue
        except Exception as e:
            ctx.fail('amuset_hosvd raised %r on a valid input' % (e,), {'gen': 'gen_int_case', 'case_seed': cs}, tags={'which': 'int', 'symptom': 'raised'})
            continue
        ctx.count('pairs:%d' % d['npairs'])
        ctx.count('listcall:%s' % d['listcall'])
        ctx.nontriv(tuple(sorted((k_, str(v)) for k_, v in d.items())))
        if k < 2:
            ctx.sample({'case': d, 'literal': str(lit)[:300]})
        cases.append(lit)
        metas.append({'desc': {'gen': 'gen_int_case', 'case_seed': cs, 'case': d}, 'tags': {'which': 'hosvd'}})
    bad = lib.stage_correspondence(ctx, 'amuset', REQ, 'check_C18', cases, metas)
    n_side = 250 if quick else 12000
    if bad:
        n_side *= 3
    for k in range(n_side):
        cs = ctx.rng.getrandbits(48)
        try:
            msg, desc = side_case(cs)
        except Exception as e:
            msg, desc = 'side check raised %r' % (e,), {'case_seed': cs}
        ctx.side_cases += 1
        ctx.evaluations += 1
        ctx.count('side:%s' % desc.get('which'))
        if desc.get('skipped'):
            ctx.count('side_skipped:%s' % desc.get('which'))
        if msg:
            ctx.fail('%s: %s' % (desc.get('which'), msg), {'gen': 'side_case', 'case_seed': cs, 'case': desc}, tags={'which': desc.get('which')})
    return ctx.finish(level='proof', checker_cmd='make -C coq Props/C18.vo Check/C18.vo && coqc Props/C18.v', trusted=TRUSTED, explanation=RULE)


TRUSTED = ['Coq 8.16.1 kernel + vm_compute', 'harness (tape oracles, generators; basis tables from the real Function objects)',
           'SVD / eig are oracles; reciprocals of singular values represented as 2^E / s (power-of-two singular values)',
           'HOCUR (cross approximation, maxvol) is not modelled: amuset_hocur is covered by the side check only', 'IEEE rounding not modelled']
RULE = ('correspondence: amuset_hosvd (1-3 modes, thresholds 0 / 0.25 / 0.5, max_rank inf / 1 / 2, single pair and lists of 1-3 index-set pairs incl. repeated and unsorted y indices) with every svd and eig answered '
        'from a tape: the matrices of the sequential decomposition, the selected last-core columns, the reduced matrix, the eigenvalue order and every core of every returned eigentensor compared with the Coq model; '
        'side check (hosvd and hocur): list call versus single calls (eigenvalues and dense eigentensors), distinct result objects, consistency, eigenvalues against numpy matrix EDMD with the 1e-3 relative cut, '
        'order by |lambda - 1|, eigen-equation of the dense eigentensors for real simple spectra, data unchanged')


def replay(obj):
    r = obj['replay']
    if r.get('gen') == 'side_case':
        msg, desc = side_case(r['case_seed'])
        print('replay: %s' % (msg or 'OK (no failure)'))
        return 1 if msg else 0
    print('replay: see file')
    return 1
