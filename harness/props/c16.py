# C16 — MANDy and ARR return (descend to) the least-squares coefficient tensor
import numpy as np, random, warnings
warnings.filterwarnings('ignore')
from harness import lib, oracles
from harness.lib import dense, consistent, close
from harness.props.c01 import gen_tt, rranks, snapshot, unchanged
from harness.props.c03 import thr_lit
from harness.props.c05 import UnitTape
from harness.props.c07 import max_ranks
from harness.props.c15 import rand_fun, rand_fun1, rand_x, table_lit

import scikit_tt.tensor_train as ttm
from scikit_tt.tensor_train import TT
import scikit_tt.data_driven.transform as tdt
import scikit_tt.data_driven.regression as reg

PROP_FILES = ['Props/C16.v']
REQ = ['SkTT.Check.C16']


class RegTape(oracles.Tape):
    def lstsq(self, a, b, cond=None, **kw):
        a = np.array(a, copy=True)
        b = np.array(b, copy=True)
        x = self._rint((a.shape[1],) + b.shape[1:])
        self.calls.append(('lstsq', [a, b], [x]))
        return x.copy(), None, 0, None


def arr_tape_lit(calls):
    out = []
    for name, ins, outs in calls:
        if name == 'lstsq':
            out.append([0, lib.mat_lit(ins[0]), lib.mat_lit(ins[1].reshape(-1, 1)), lib.mat_lit(outs[0].reshape(-1, 1))])
        elif name == 'qr':
            out.append([1, lib.mat_lit(ins[0]), lib.mat_lit(outs[0]), lib.mat_lit(outs[1])])
        elif name == 'rq':
            out.append([2, lib.mat_lit(ins[0]), lib.mat_lit(outs[1]), lib.mat_lit(outs[0])])
        else:
            raise ValueError(name)
    return out


def cm_tables(x, phi):
    d, m = x.shape
    return [np.array([[float(phi[k](x[i, j])) for j in range(m)] for k in range(len(phi))]) for i in range(d)]


def fm_tables(x, phi, add_one):
    d, m = x.shape
    return [np.array(([[1.0] * m] if add_one else []) + [[float(phi[i](x[k, j])) for j in range(m)] for k in range(d)]) for i in range(len(phi))]


def gen_int_case(rng):
    which = rng.choice(['cm', 'fm', 'arr', 'arr', 'kb'])
    d = rng.randint(1, 3)
    m = rng.randint(1, 4)
    x = rand_x(rng, d, m, 'int')
    dout = rng.randint(1, 2) if which == 'arr' else rng.randint(1, 3)
    if which in ('cm', 'fm'):
        dout = d           # the code reshapes to (r, d, 1, 1): y has d rows
    y = np.array([[float(rng.randint(-2, 2)) for _ in range(m)] for _ in range(dout)])
    snap_xy = (x.copy(), y.copy())
    desc = dict(which=which, d=d, m=m, dout=dout)
    if which in ('cm', 'fm'):
        p = rng.randint(1, 3)
        phi = [rand_fun1(rng, 'int') for _ in range(p)]
        add_one = rng.random() < 0.5
        tabs = cm_tables(x, phi) if which == 'cm' else fm_tables(x, phi, add_one)
        index = d if which == 'cm' else p
        thr = rng.choice([0, 0, 0.5])
        tape = UnitTape(rng, rng.choice(['arb', 'arb', 'triv']))
        with oracles.patched(tape, names=('svd',)):
            xi = reg.mandy_cm(x, y, phi, threshold=thr) if which == 'cm' else reg.mandy_fm(x, y, phi, threshold=thr, add_one=add_one)
        log = [lib.mat_lit(c[1][0]) for c in tape.calls]
        lit = [1, [m, [table_lit(t) for t in tabs], index, thr_lit(thr), lib.mat_lit(y), oracles.svd_tape_lit(tape.calls)], [lib.tt_out_lit(xi), log]]
        desc.update(p=p, thr=thr, add_one=add_one, svds=len(tape.calls))
        if not consistent(xi):
            raise AssertionError('mandy returned an inconsistent TT')
    elif which == 'arr':
        p = rng.randint(1, 3)
        basis = [[rand_fun(rng, d, 'int') for _ in range(rng.randint(1, 2))] for _ in range(p)]
        tabs = [np.array([[float(basis[i][k](x[:, j])) for j in range(m)] for k in range(len(basis[i]))]) for i in range(p)]
        guess = gen_tt(rng, [len(b) for b in basis], [1] * p, rranks(rng, p, 2), False, 'int')
        reps = rng.randint(1, 2)
        tape = RegTape(rng, 'arb', lo=-1, hi=1)
        gsnap = snapshot([guess])
        with oracles.patched(tape, names=('lstsq', 'qr', 'rq')):
            sol = reg.arr(x, y, basis, guess, repeats=reps, progress=False)
        if not unchanged([guess], gsnap):
            raise AssertionError('arr modified its initial guess')
        if len(sol) != dout or any(not consistent(s) for s in sol):
            raise AssertionError('arr: wrong number of / inconsistent solutions')
        lit = [2, [m, [table_lit(t) for t in tabs], lib.cores_lit(guess.cores), lib.mat_lit(y), reps, arr_tape_lit(tape.calls)], [lib.cores_lit(s.cores) for s in sol]]
        desc.update(p=p, reps=reps, calls=len(tape.calls))
    else:
        p = rng.randint(1, 3)
        basis = [[rand_fun(rng, d, 'int') for _ in range(rng.randint(1, 3))] for _ in range(p)]
        tabs = [np.array([[float(basis[i][k](x[:, j])) for j in range(m)] for k in range(len(basis[i]))]) for i in range(p)]
        tape = RegTape(rng, 'arb')
        with oracles.patched(tape, names=('solve', 'lstsq')):
            z = reg.mandy_kb(x, y, basis)
        name, ins, outs = tape.calls[0]
        desc.update(p=p, branch=name)
        lit = [3, [m, [table_lit(t) for t in tabs], lib.mat_lit(y), [lib.mat_lit(ins[0]), lib.mat_lit(ins[1]), lib.mat_lit(np.asarray(outs[0]).reshape(m, dout))]], lib.mat_lit(z)]
    if not (np.array_equal(x, snap_xy[0]) and np.array_equal(y, snap_xy[1])):
        raise AssertionError('data matrices modified')
    return lit, desc


# ---- numerical side check ---------------------------------------------------------------------------
def psi_matrix(tabs):
    """dense transformed data matrix: rows = multi-index over the modes (row-major), columns = snapshots"""
    m = tabs[0].shape[1]
    P = np.ones((1, m))
    for t in tabs:
        P = np.einsum('aj,kj->akj', P, t).reshape(-1, m)
    return P


class Scaled:
    """a scalar basis function of small amplitude: eps * f"""
    def __init__(self, f, eps):
        self.f, self.eps = f, eps

    def __call__(self, s_):
        return self.eps * self.f(s_)


def side_case(seed):
    rng = random.Random(seed)
    which = rng.choice(['cm', 'fm', 'kb', 'arr'])
    d = rng.randint(1, 3)
    desc = dict(which=which, d=d)
    try:
        if which in ('cm', 'fm', 'kb'):
            p = rng.randint(1, 3)
            regime = rng.choice(['under', 'over', 'exact'])
            if which == 'cm':
                phi = [rand_fun1(rng, 'float') for _ in range(p)]
                nfeat = p ** d
            elif which == 'fm':
                add_one = rng.random() < 0.5
                phi = [rand_fun1(rng, 'float') for _ in range(p)]
                nfeat = (d + add_one) ** p
                desc.update(add_one=add_one)
            else:
                basis = [[rand_fun(rng, d, 'float') for _ in range(rng.randint(1, 3))] for _ in range(p)]
                nfeat = int(np.prod([len(b) for b in basis]))
            thr = 0.0
            if which in ('cm', 'fm') and rng.random() < 0.4:
                # a relative threshold far below every singular-value ratio that is judged, on data of small amplitude or not
                thr = 1e-8
                if rng.random() < 0.6:
                    phi = [Scaled(f_, 1e-3) for f_ in phi]
                desc.update(threshold=thr, small_amplitude=isinstance(phi[0], Scaled))
            m = {'under': max(1, nfeat - rng.randint(1, 3)), 'over': nfeat + rng.randint(1, 4), 'exact': nfeat}[regime]
            m = min(m, 40)
            x = rand_x(rng, d, m, 'float')
            dout = d if which in ('cm', 'fm') else rng.randint(1, 3)
            singular = which == 'kb' and m >= 2 and rng.random() < 0.35
            if singular:        # repeated snapshots: exactly singular Gram matrix, the least-squares branch of mandy_kb
                for _ in range(rng.randint(1, max(1, m // 2))):
                    a_, b_ = rng.sample(range(m), 2)
                    x[:, a_] = x[:, b_]
            y = np.array([[rng.uniform(-1, 1) for _ in range(m)] for _ in range(dout)])
            desc.update(p=p, m=m, regime=regime, nfeat=nfeat, singular=singular)
            xs, ys = x.copy(), y.copy()
            if which == 'cm':
                tabs = cm_tables(x, phi)
                xi = reg.mandy_cm(x, y, phi, threshold=thr)
            elif which == 'fm':
                tabs = fm_tables(x, phi, add_one)
                xi = reg.mandy_fm(x, y, phi, threshold=thr, add_one=add_one)
            else:
                tabs = [np.array([[float(basis[i][k](x[:, j])) for j in range(m)] for k in range(len(basis[i]))]) for i in range(p)]
                try:
                    z = reg.mandy_kb(x, y, basis)
                except np.linalg.LinAlgError as e:
                    return 'mandy_kb raised %r (Gram matrix %s)' % (e, 'singular: repeated snapshots' if singular else 'regular'), desc
            if not (np.array_equal(x, xs) and np.array_equal(y, ys)):
                return 'data matrices modified', desc
            P = psi_matrix(tabs)
            sv = np.linalg.svd(P, compute_uv=False)
            if singular:
                # fitted values of the minimum-norm solution: projection of y onto the row space of Psi
                # the kernel variant works with Psi^T Psi: its accuracy is cond(Psi)^2 eps on the non-zero part; only
                # well-separated spectra (non-zero singular values above 1e-3, the rest at rounding level) are judged
                if np.any((sv > 1e-13 * sv[0]) & (sv <= 1e-3 * sv[0])):
                    desc['skipped'] = 'ill-conditioned beyond the repeated snapshots'
                    return None, desc
                fit_ref = y @ np.linalg.pinv(P, rcond=1e-9) @ P
                fit_kb = z @ (P.T @ P)
                err = float(np.max(np.abs(fit_kb - fit_ref)))
                if z.shape != (dout, m) or err > 1e-6 * (1 + float(np.max(np.abs(fit_ref)))):
                    return 'kernel-based coefficients (singular Gram matrix) do not reproduce the least-squares fitted values: max err %.2e' % err, desc
                return None, desc
            if sv[-1] < (1e-3 if which == 'kb' else 1e-6) * sv[0]:     # thresholds below the smallest relevant ratio; kb squares the condition number
                desc['skipped'] = 'ill-conditioned'
                return None, desc
            ref = y @ np.linalg.pinv(P)           # dout x nfeat : Xi^T
            if which in ('cm', 'fm'):
                if not consistent(xi) or list(xi.row_dims[:-1]) != [t.shape[0] for t in tabs] or xi.row_dims[-1] != dout:
                    return 'mandy result inconsistent / wrong dimensions', desc
                X = dense(xi.cores).reshape(nfeat, dout)
                err = float(np.max(np.abs(X - ref.T)))
                if err > 1e-7 * (1 + float(np.max(np.abs(ref)))):
                    return 'matricised coefficient tensor differs from (y pinv(Psi))^T: max err %.2e' % err, desc
            else:
                fit_kb = z @ (P.T @ P)
                fit_ref = ref @ P
                err = float(np.max(np.abs(fit_kb - fit_ref)))
                if z.shape != (dout, m) or err > 1e-6 * (1 + float(np.max(np.abs(fit_ref)))):
                    return 'kernel-based coefficients do not reproduce the least-squares fitted values: max err %.2e' % err, desc
            return None, desc
        # ---- ARR
        p = rng.randint(1, 4)
        basis = [[rand_fun(rng, d, 'float') for _ in range(rng.randint(1, 3))] for _ in range(p)]
        dims = [len(b) for b in basis]
        nfeat = int(np.prod(dims))
        m = rng.randint(max(2, nfeat), nfeat + 6)
        x = rand_x(rng, d, m, 'float')
        dout = rng.randint(1, 2)
        y = np.array([[rng.uniform(-1, 1) for _ in range(m)] for _ in range(dout)])
        mr = max_ranks(dims)
        ranks = [min(a, b) for a, b in zip(rranks(rng, p, 3), mr)]
        # economic QR/RQ can only keep a rank that the neighbouring unfolding can carry (r_i <= n_i r_{i+1}, r_{i+1} <= r_i n_i):
        # over-parameterised guesses are outside "keeps the ranks"
        changed = True
        while changed:
            changed = False
            for i in range(p):
                if ranks[i] > dims[i] * ranks[i + 1]:
                    ranks[i] = dims[i] * ranks[i + 1]; changed = True
                if ranks[i + 1] > ranks[i] * dims[i]:
                    ranks[i + 1] = ranks[i] * dims[i]; changed = True
        guess = gen_tt(rng, dims, [1] * p, ranks, False, 'float')
        tabs = [np.array([[float(basis[i][k](x[:, j])) for j in range(m)] for k in range(len(basis[i]))]) for i in range(p)]
        P = psi_matrix(tabs)
        sv = np.linalg.svd(P, compute_uv=False)
        desc.update(p=p, dims=dims, m=m, ranks=ranks)
        if sv[-1] < 1e-4 * sv[0]:
            desc['skipped'] = 'ill-conditioned'
            return None, desc
        gsnap = snapshot([guess])
        xs, ys = x.copy(), y.copy()
        res = []
        sols = []
        for reps in (1, 2, 3):
            sol = reg.arr(x, y, basis, guess, repeats=reps, rcond=1e-13, progress=False)
            if not unchanged([guess], gsnap):
                return 'arr modified its initial guess', desc
            if len(sol) != dout:
                return 'arr returned %d solutions for %d outputs' % (len(sol), dout), desc
            r_ = 0.0
            for k, s in enumerate(sol):
                if not consistent(s) or list(s.row_dims) != dims:
                    return 'arr solution inconsistent', desc
                if list(s.ranks) != ranks:
                    return 'arr changed the ranks of its initial guess: %s -> %s' % (ranks, s.ranks), desc
                v = dense(s.cores).reshape(nfeat)
                r_ += float(np.sum((v @ P - y[k]) ** 2))
            res.append(r_)
            sols.append(sol)
        if not (np.array_equal(x, xs) and np.array_equal(y, ys)):
            return 'data matrices modified', desc
        # the guess may also be given as a list with one train per output: same result, guesses untouched
        glist = [guess.copy() for _ in range(dout)]
        lsnap = snapshot(glist)
        sol_l = reg.arr(x, y, basis, glist, repeats=1, rcond=1e-13, progress=False)
        if not unchanged(glist, lsnap):
            return 'arr modified the trains of a list-valued initial guess', desc
        if len(sol_l) != dout or any(not close(dense(a_.cores), dense(b_.cores), 1e-9) for a_, b_ in zip(sol_l, sols[0])):
            return 'arr with a list-valued guess differs from arr with the same train as guess', desc
        desc['residuals'] = res
        g = dense(guess.cores).reshape(nfeat)
        r0 = dout * 0.0 + sum(float(np.sum((g @ P - y[k]) ** 2)) for k in range(dout))
        tol = 1e-8 * (1 + r0)
        if res[0] > r0 + tol:
            return 'one ARR sweep increased the residual: %.10g -> %.10g' % (r0, res[0]), desc
        if res[1] > res[0] + tol or res[2] > res[1] + tol:
            return 'ARR residual not monotone in the number of sweeps: %s' % (res,), desc
        if ranks == mr:
            best = float(np.sum((y @ np.linalg.pinv(P) @ P - y) ** 2))
            if res[2] > best + 1e-6 * (1 + best):
                return 'ARR at maximal ranks does not reach the least-squares residual: %.10g vs %.10g' % (res[2], best), desc
        return None, desc
    except np.linalg.LinAlgError as e:
        desc['skipped'] = repr(e)
        return None, desc
    except Exception as e:
        return 'raised %r' % (e,), desc


def run(ctx):
    quick = ctx.tier == 'quick'
    lib.stage_proof(ctx, PROP_FILES, ['Check/C16.vo'])
    n = 150 if quick else 5000
    cases, metas = [], []
    for k in range(n):
        cs = ctx.rng.getrandbits(48)
        try:
            lit, d = gen_int_case(random.Random(cs))
        except lib.InexactValue:
            ctx.skipped_inexact += 1
            continue
        except Exception as e:
            ctx.fail('regression routine raised %r on a valid input' % (e,), {'gen': 'gen_int_case', 'case_seed': cs}, tags={'which': 'int', 'symptom': 'raised'})
            continue
        ctx.count('routine:' + d['which'])
        ctx.nontriv(tuple(sorted((k_, str(v)) for k_, v in d.items())))
        if k < 2:
            ctx.sample({'case': d, 'literal': str(lit)[:300]})
        cases.append(lit)
        metas.append({'desc': {'gen': 'gen_int_case', 'case_seed': cs, 'case': d}, 'tags': {'which': d['which']}})
    bad = lib.stage_correspondence(ctx, 'regression', REQ, 'check_C16', cases, metas)
    n_side = 200 if quick else 12000
    if bad:
        n_side *= 3
    for k in range(n_side):
        cs = ctx.rng.getrandbits(48)
        try:
            msg, desc = side_case(cs)
        except Exception as e:
            msg, desc = 'side check raised %r' % (e,), {'case_seed': cs}
        ctx.side_cases += 1
        ctx.evaluations += 1
        ctx.count('side:%s' % desc.get('which'))
        if desc.get('skipped'):
            ctx.count('side_skipped:%s' % desc.get('which'))
        if msg:
            ctx.fail('%s: %s' % (desc.get('which'), msg), {'gen': 'side_case', 'case_seed': cs, 'case': desc}, tags={'which': desc.get('which')})
    return ctx.finish(level='proof', checker_cmd='make -C coq Props/C16.vo Check/C16.vo && coqc Props/C16.v', trusted=TRUSTED, explanation=RULE)


TRUSTED = ['Coq 8.16.1 kernel + vm_compute', 'harness (tape oracles incl. lstsq, generators; basis-function tables computed from the real Function objects)',
           'SVD / lstsq / qr / rq / solve are oracles: "lstsq returns a solution of the normal equations", "U, V orthonormal" are hypotheses',
           'np.linalg.cond (branch of mandy_kb) and np.reciprocal are outside the model', 'IEEE rounding not modelled']
RULE = ('correspondence: mandy_cm / mandy_fm (with and without the constant function, thresholds 0 and 0.5) with an SVD tape of unit singular values, mandy_kb with a solve / lstsq tape, '
        'arr (1-3 modes, 1-2 outputs, 1-2 sweeps) with lstsq / qr / rq answered from a tape: every matrix handed to an oracle and every returned core compared with the Coq model; '
        'side check: matricised MANDy coefficients against y pinv(Psi) on the dense transformed data matrix in the under-, exactly- and over-determined regime, kernel-based fitted values, '
        'ARR residual after 0/1/2/3 sweeps (monotone), ranks kept, guess and data unchanged, least-squares optimum reached at maximal ranks')


def replay(obj):
    r = obj['replay']
    if r.get('gen') == 'side_case':
        msg, desc = side_case(r['case_seed'])
        print('replay: %s' % (msg or 'OK (no failure)'))
        return 1 if msg else 0
    print('replay: see file')
    return 1
