# C19 — generator EDMD: product-rule evaluation and reduced matrix match the dense ones
import numpy as np, random, warnings, itertools, io, contextlib
warnings.filterwarnings('ignore')
from harness import lib
from harness.props.c15 import rand_fun as _rand_fun

import scikit_tt.data_driven.transform as tdt
import scikit_tt.data_driven.tgedmd as tg

PROP_FILES = ['Props/C19.v']
REQ = ['SkTT.Check.C19']


def rand_fun(rng, d, mode):
    """basis functions with second derivatives (PeriodicGaussFunction / Bspline implement no partial2: outside the generator's domain)"""
    while True:
        f = _rand_fun(rng, d, mode)
        if not isinstance(f, tdt.PeriodicGaussFunction):
            return f


def quiet(f, *a, **kw):
    with contextlib.redirect_stdout(io.StringIO()):
        return f(*a, **kw)


def jet_lit(f, x):
    return [int_exact(f(x)), [int_exact(v) for v in f.gradient(x)], lib.mat_lit(np.asarray(f.hessian(x), dtype=float))]


def int_exact(v):
    v = float(v)
    if not np.isfinite(v) or v != int(v) or abs(v) > 2 ** 50:
        raise lib.InexactValue(v)
    return int(v)


def rint_x(rng, d, m):
    return np.array([[float(rng.choice([-2, -1, 0, 1, 2])) for _ in range(m)] for _ in range(d)])       # 0: factors of the product vanish


def gen_int_case(rng):
    op = rng.choice([1, 2, 3, 3, 4, 4])
    d = rng.randint(1, 2)
    d2 = rng.randint(1, 3)
    p = rng.randint(2, 3) if op >= 3 else rng.randint(1, 4)
    basis = [[rand_fun(rng, d, 'int') for _ in range(rng.randint(1, 2))] for _ in range(p)]
    desc = dict(op=op, d=d, d2=d2, p=p)
    if op in (1, 2):
        x = rint_x(rng, d, 1)[:, 0]
        s = tuple(rng.randrange(len(bl)) for bl in basis)
        sigma = np.array([[2.0 * rng.randint(-1, 1) for _ in range(d2)] for _ in range(d)])
        b = np.array([float(rng.randint(-2, 2)) for _ in range(d)])
        jets = [jet_lit(basis[l][s[l]], x) for l in range(p)]
        xs = x.copy()
        if op == 1:
            val = tg.generator_on_product(basis, s, x, b, sigma)
            lit = [1, [d, d2, [int(t) for t in b], lib.mat_lit(sigma), jets], int_exact(val)]
        else:
            i = rng.randrange(d2)
            val = tg.generator_on_product_reversible(basis, s, i, x, sigma)
            lit = [2, [d, d2, lib.mat_lit(sigma), jets, i], int_exact(val)]
        if not np.array_equal(x, xs):
            raise AssertionError('data point modified')
        return lit, desc
    m = rng.randint(1, 3)
    x = rint_x(rng, d, m)
    n = [len(bl) for bl in basis]
    ranks = [1] + [rng.randint(1, 2) for _ in range(p)] + [1]
    u = [np.array([[[float(rng.randint(-1, 1)) for _ in range(ranks[k + 1])] for _ in range(n[k])] for _ in range(ranks[k])]) for k in range(p)]
    rp = ranks[p]
    s_inv = np.array([[float(rng.randint(-1, 2)) if (i == j or rng.random() < 0.3) else 0.0 for j in range(rp)] for i in range(rp)])
    V = np.array([[float(rng.randint(-2, 2)) for _ in range(rp)] for _ in range(m)])
    sigma = np.array([[[2.0 * rng.randint(-1, 1) for _ in range(m)] for _ in range(d2)] for _ in range(d)])
    b = np.array([[float(rng.randint(-2, 2)) for _ in range(m)] for _ in range(d)])
    rew = rng.random() < 0.5
    w = np.array([float(rng.choice([1, 4, 9])) for _ in range(m)]) if rew else None
    desc.update(m=m, ranks=ranks, reweight=rew)
    snaps = []
    for l in range(m):
        modes = [[jet_lit(f, x[:, l]) for f in basis[k]] for k in range(p)]
        if op == 3:
            snaps.append([[int(t) for t in b[:, l]], lib.mat_lit(sigma[:, :, l]), modes, int(np.sqrt(w[l])) if rew else 1, [int(t) for t in V[l, :]]])
        else:
            snaps.append([lib.mat_lit(sigma[:, :, l]), modes, int(w[l]) if rew else 1])
    keep = [a.copy() for a in u] + [s_inv.copy(), V.copy(), x.copy(), sigma.copy(), b.copy()]
    M = quiet(tg._reduced_matrix_tgedmd, u, s_inv, V, ranks, x, basis, sigma, b=(b if op == 3 else None), reweight=w)
    now = u + [s_inv, V, x, sigma, b]
    if any(not np.array_equal(a_, b_) for a_, b_ in zip(keep, now)):
        raise AssertionError('_reduced_matrix_tgedmd modified an argument')
    ulit = [[a.shape[0], a.shape[1], 1, a.shape[2], lib.flat_zi(a.reshape(a.shape[0], a.shape[1], 1, a.shape[2]))] for a in u]
    lit = [op, [d, d2, snaps, ulit, lib.mat_lit(s_inv)], lib.mat_lit(M)]
    return lit, desc


# ---- numerical side check ---------------------------------------------------------------------------
def jet_product(fs, x):
    """value, gradient and Hessian of prod_l f_l at x by the Leibniz rule (independent of the repository's sums)"""
    v, g, H = 1.0, np.zeros(len(x)), np.zeros((len(x), len(x)))
    for f in fs:
        fv, fg, fH = float(f(x)), np.asarray(f.gradient(x), dtype=float), np.asarray(f.hessian(x), dtype=float)
        v, g, H = v * fv, v * fg + fv * g, v * fH + fv * H + np.outer(g, fg) + np.outer(fg, g)
    return v, g, H


def dense_tables(basis, x, b, sigma):
    """Psi (N x m), L Psi (N x m) and grad Psi (N x d x m) over all index tuples (row-major)"""
    p = len(basis)
    d, m = x.shape
    tuples = list(itertools.product(*[range(len(bl)) for bl in basis]))
    P = np.zeros((len(tuples), m))
    LP = np.zeros((len(tuples), m))
    G = np.zeros((len(tuples), d, m))
    for t, s in enumerate(tuples):
        fs = [basis[l][s[l]] for l in range(p)]
        for j in range(m):
            v, g, H = jet_product(fs, x[:, j])
            P[t, j] = v
            G[t, :, j] = g
            if b is not None:
                a = sigma[:, :, j] @ sigma[:, :, j].T
                LP[t, j] = b[:, j] @ g + 0.5 * np.sum(a * H)
    return tuples, P, LP, G


def side_case(seed):
    rng = random.Random(seed)
    clause = rng.choice(['product', 'product_rev', 'amuset', 'amuset', 'amuset_rev'])
    d = rng.randint(1, 3)
    d2 = rng.randint(1, 4)
    desc = dict(which=clause, d=d, d2=d2)
    try:
        if clause in ('product', 'product_rev'):
            p = rng.randint(1, 4)
            basis = [[rand_fun(rng, d, 'float') for _ in range(rng.randint(1, 3))] for _ in range(p)]
            x = np.array([rng.uniform(0.2, 1.5) * rng.choice([1, -1]) for _ in range(d)])
            if rng.random() < 0.3:          # points where some factor of the product vanishes exactly
                x[rng.randrange(d)] = 0.0
            sigma = np.array([[rng.uniform(-1, 1) for _ in range(d2)] for _ in range(d)])
            b = np.array([rng.uniform(-1, 1) for _ in range(d)])
            s = tuple(rng.randrange(len(bl)) for bl in basis)
            desc.update(p=p)
            v, g, H = jet_product([basis[l][s[l]] for l in range(p)], x)
            if clause == 'product':
                got = tg.generator_on_product(basis, s, x, b, sigma)
                ref = b @ g + 0.5 * np.sum((sigma @ sigma.T) * H)
            else:
                i = rng.randrange(d2)
                got = tg.generator_on_product_reversible(basis, s, i, x, sigma)
                ref = sigma[:, i] @ g
            if abs(got - ref) > 1e-9 * (1 + abs(ref)):
                return '%s at s=%s: %.12g, generator of the product gives %.12g' % (clause, s, got, ref), desc
            return None, desc
        # ---- full tgEDMD against the dense projected generator matrix
        p = rng.randint(2, 3)
        basis = [[rand_fun(rng, d, 'float') for _ in range(rng.randint(1, 3))] for _ in range(p)]
        N = int(np.prod([len(bl) for bl in basis]))
        m = rng.randint(2, 14)
        x = np.array([[rng.uniform(0.2, 1.5) * rng.choice([1, -1]) for _ in range(m)] for _ in range(d)])
        sigma = np.array([[[rng.uniform(-1, 1) for _ in range(m)] for _ in range(d2)] for _ in range(d)])
        rev = clause == 'amuset_rev'
        b = None if rev else np.array([[rng.uniform(-1, 1) for _ in range(m)] for _ in range(d)])
        rew = rng.random() < 0.5
        w = np.array([rng.uniform(0.2, 2) for _ in range(m)]) if rew else None
        relthr = rng.random() < 0.4
        thr = rng.choice([1e-10, 1e-10, 1e-2, 0.1, 0.3])
        maxr = rng.choice([np.inf, np.inf, 2, 3])
        opt = rng.choice(['eigenvectors', 'eigenfunctionevals', 'eigentensors'])
        nev = rng.choice([np.inf, np.inf, 1, 2])
        desc.update(p=p, N=N, m=m, reweight=rew, rel_threshold=relthr, threshold=thr, max_rank=str(maxr), return_option=opt, num_eigvals=str(nev))
        x_arg = x
        if rng.random() < 0.15:             # integer-valued snapshots typed int64 (lattice points)
            x_arg = np.rint(2 * x).astype(np.int64)
            x = x_arg.astype(float)
            desc['int_typed'] = True
        tuples, P, LP, G = dense_tables(basis, x, b, sigma)
        sw = np.sqrt(w) if rew else np.ones(m)
        if relthr and rng.random() < 0.4:
            # a relative threshold just below one of the singular-value ratios of the (weighted) data matrix
            s_all = np.linalg.svd(P * sw[None, :], compute_uv=False)
            cand = [v_ / s_all[0] for v_ in s_all[1:] if v_ / s_all[0] > 1e-6]
            if cand:
                thr = float(rng.choice(cand)) / 1.15
                desc['threshold'] = thr
        # independent global SVD mode by mode (the documented cut in every mode: absolute or relative threshold, then the
        # rank cap; the weights enter at the last mode), in dense form: U is N x r with orthonormal columns
        tabs = [np.array([[float(f(x[:, j])) for j in range(m)] for f in bl]) for bl in basis]
        res_ = np.ones((1, m))
        Uacc = np.ones((1, 1))                   # (prod n_1..n_i) x r_i
        for i in range(p):
            C = (res_[:, None, :] * tabs[i][None, :, :])
            if i == p - 1:
                C = C * sw[None, None, :]
            C = C.reshape(res_.shape[0] * tabs[i].shape[0], m)
            Ui, s, Vh = np.linalg.svd(C, full_matrices=False)
            if s[0] == 0:
                desc['skipped'] = 'zero data'
                return None, desc
            cut = thr * (s[0] if relthr else 1.0)
            band = 1e3 if thr < 1e-6 else 1 + 1e-4          # tiny thresholds separate signal from rounding noise
            if np.any((s > cut / band) & (s < cut * band)) or np.any((s / s[0] < 1e-7) & (s > cut)):
                desc['skipped'] = 'singular value near the cut / ill-conditioned'
                return None, desc
            k_ = int(np.sum(s > cut))
            if maxr != np.inf:
                if k_ > maxr and s[maxr] > 0.999 * s[maxr - 1]:
                    desc['skipped'] = 'no gap at the rank cap'
                    return None, desc
                k_ = min(k_, int(maxr))
            if k_ == 0:
                desc['skipped'] = 'everything cut'
                return None, desc
            Ui, s, Vh = Ui[:, :k_], s[:k_], Vh[:k_, :]
            res_ = np.diag(s) @ Vh
            Uacc = np.einsum('ar,rnk->ank', Uacc, Ui.reshape(Uacc.shape[1], tabs[i].shape[0], k_)).reshape(-1, k_)
        U = Uacc
        if not np.allclose(U.T @ U, np.eye(U.shape[1]), atol=1e-8):
            desc['skipped'] = 'reference basis lost orthonormality'
            return None, desc
        if rev:
            Mref = np.zeros((len(s), len(s)))
            for l in range(m):
                a = sigma[:, :, l] @ sigma[:, :, l].T
                gv = G[:, :, l].T @ U @ np.diag(1 / s)          # d x r
                Mref += -0.5 * (w[l] if rew else 1.0) * gv.T @ a @ gv
        else:
            Mref = Vh @ np.diag(sw) @ LP.T @ U @ np.diag(1 / s)
        ref = np.linalg.eigvals(Mref)
        keepx = [x_arg.copy(), sigma.copy()] + ([b.copy()] if b is not None else []) + ([w.copy()] if rew else [])
        out = quiet(tg.amuset_hosvd, x_arg, basis, sigma, b=b, reweight=w, num_eigvals=nev, threshold=thr, max_rank=maxr, return_option=opt, rel_threshold=relthr)
        nowx = [x_arg, sigma] + ([b] if b is not None else []) + ([w] if rew else [])
        if any(not np.array_equal(a_, b_) for a_, b_ in zip(keepx, nowx)):
            return 'amuset_hosvd modified an input array', desc
        ev, second, ranks = out
        r = len(s)
        if ranks[-2] != r:
            return 'last TT rank %d differs from the rank %d of the mode-by-mode global SVD of the (reweighted) transformed data at this cut' % (ranks[-2], r), desc
        k = r if nev == np.inf else min(r, int(nev))
        if len(ev) != k:
            return '%d eigenvalues returned, expected %d' % (len(ev), k), desc
        scale = 1 + float(np.max(np.abs(ref)))
        srt = ref[np.argsort(-ref)]
        if np.max(np.abs(np.asarray(ev) - srt[:k])) > 1e-6 * scale:
            # sorting of nearly equal / complex-conjugate eigenvalues may differ: compare as multisets against the full spectrum
            rem = list(ref)
            for e_ in ev:
                j = int(np.argmin([abs(e_ - r_) for r_ in rem]))
                if abs(e_ - rem[j]) > 1e-6 * scale:
                    return 'eigenvalue %s is not an eigenvalue of the dense projected generator matrix %s' % (e_, ref), desc
                rem.pop(j)
            if k == r:
                pass
            elif np.min([abs(a_ - b_) for a_ in ev for b_ in rem] + [1.0]) > 1e-6 * scale and np.max(np.real(rem)) > np.min(np.real(ev)) + 1e-6 * scale:
                return 'the %d returned eigenvalues are not the largest ones: %s of %s' % (k, ev, ref), desc
        if np.any(np.diff(np.real(ev)) > 1e-9 * scale):
            return 'eigenvalues not in descending order: %s' % (ev,), desc
        if opt == 'eigenvectors' and np.shape(second) != (r, k):
            return 'eigenvector array has shape %s, expected %s' % (np.shape(second), (r, k)), desc
        if opt == 'eigenfunctionevals' and np.shape(second) != (k, m):
            return 'eigenfunction evaluations have shape %s, expected %s' % (np.shape(second), (k, m)), desc
        if opt == 'eigentensors':
            if len(second) != k or any(len(t) != p for t in second):
                return 'eigentensor list malformed', desc
        return None, desc
    except np.linalg.LinAlgError as e:
        desc['skipped'] = repr(e)
        return None, desc
    except Exception as e:
        return 'raised %r' % (e,), desc


def run(ctx):
    quick = ctx.tier == 'quick'
    lib.stage_proof(ctx, PROP_FILES, ['Check/C19.vo'])
    n = 200 if quick else 6000
    cases, metas = [], []
    for k in range(n):
        cs = ctx.rng.getrandbits(48)
        try:
            lit, d = gen_int_case(random.Random(cs))
        except lib.InexactValue:
            ctx.skipped_inexact += 1
            continue
        except Exception as e:
            ctx.fail('tgedmd routine raised %r on a valid input' % (e,), {'gen': 'gen_int_case', 'case_seed': cs}, tags={'which': 'int', 'symptom': 'raised'})
            continue
        ctx.count('op:%d' % d['op'])
        ctx.nontriv(tuple(sorted((k_, str(v)) for k_, v in d.items())))
        if k < 2:
            ctx.sample({'case': d, 'literal': str(lit)[:300]})
        cases.append(lit)
        metas.append({'desc': {'gen': 'gen_int_case', 'case_seed': cs, 'case': d}, 'tags': {'which': 'op%d' % d['op']}})
    bad = lib.stage_correspondence(ctx, 'tgedmd', REQ, 'check_C19', cases, metas)
    n_side = 250 if quick else 12000
    if bad:
        n_side *= 3
    for k in range(n_side):
        cs = ctx.rng.getrandbits(48)
        try:
            msg, desc = side_case(cs)
        except Exception as e:
            msg, desc = 'side check raised %r' % (e,), {'case_seed': cs}
        ctx.side_cases += 1
        ctx.evaluations += 1
        ctx.count('side:%s' % desc.get('which'))
        if desc.get('skipped'):
            ctx.count('side_skipped:%s' % desc.get('which'))
        if msg:
            ctx.fail('%s: %s' % (desc.get('which'), msg), {'gen': 'side_case', 'case_seed': cs, 'case': desc}, tags={'which': desc.get('which')})
    return ctx.finish(level='proof', checker_cmd='make -C coq Props/C19.vo Check/C19.vo && coqc Props/C19.v', trusted=TRUSTED, explanation=RULE)


TRUSTED = ['Coq 8.16.1 kernel + vm_compute', 'harness (generators; values, gradients and Hessians of the basis functions come from the real Function objects)',
           'jet multiplication = calculus product rule (classical); derivative correctness of the bundled families is C14',
           'SVD / eig of amuset_hosvd are not taped here: the full pipeline is covered by the dense side check', 'IEEE rounding not modelled']
RULE = ('correspondence (integer data, even diffusion entries so that 0.5 * a : H is exact): generator_on_product, generator_on_product_reversible (1-4 modes, d <= 2, d2 <= 3, square and non-square sigma) and '
        '_reduced_matrix_tgedmd in both branches (2-3 modes, arbitrary integer cores, s_inv and V, with and without reweighting) compared exactly with the Coq model; '
        'side check: the two product-rule functions against an independent Leibniz-rule 2-jet product; amuset_hosvd (reversible and not, reweighted or not, absolute and relative cut, all return options, num_eigvals) '
        'against the eigenvalues of the dense projected generator matrix from numpy SVD of the (reweighted) transformed data matrix, order, shapes, inputs unchanged')


def replay(obj):
    r = obj['replay']
    if r.get('gen') == 'side_case':
        msg, desc = side_case(r['case_seed'])
        print('replay: %s' % (msg or 'OK (no failure)'))
        return 1 if msg else 0
    print('replay: see file')
    return 1
