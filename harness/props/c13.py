# C13 — bundled models are generators, unitaries or Hermitian for all parameters
import numpy as np, random, warnings, ast, inspect, itertools, textwrap
warnings.filterwarnings('ignore')
from harness import lib
from harness.lib import dense, consistent
from harness.props.c12 import dense_generator

import scikit_tt.tensor_train as ttm
from scikit_tt.tensor_train import TT
import scikit_tt.models as mdl

PROP_FILES = ['Props/C13.v']
REQ = ['SkTT.Check.C13']


def mat(t):
    """dense matrix of a TT operator / vector (independent of the repository)"""
    d = dense(t.cores)
    m = int(np.prod([c.shape[1] for c in t.cores]))
    n = int(np.prod([c.shape[2] for c in t.cores]))
    return d.reshape(m, n)


def colsums_tt(t):
    """column sums of a TT operator without matricising: sum every core over its row index, contract"""
    acc = np.ones((1, 1))
    for c in t.cores:
        s = c.sum(axis=1)                               # (r, n, r')
        acc = np.einsum('Na,anb->Nnb', acc, s).reshape(-1, s.shape[2])
    return acc.reshape(-1)


def generator_defect(A):
    n = A.shape[0]
    scale = 1 + float(np.max(np.abs(A)))
    cs = float(np.max(np.abs(A.sum(axis=0)))) / scale
    off = A - np.diag(np.diag(A))
    neg = float(-min(0.0, off.min())) / scale
    return cs, neg


# ---- signaling_cascade with abstracted literals (size 64, rates 0.7 / 0.07, reciprocal table) -----------
class _NP:
    """numpy proxy for the re-executed source: everything is numpy, except reciprocal (surrogate table)"""
    def __init__(self, recip):
        self._recip = recip

    def __getattr__(self, k):
        return getattr(np, k)

    def reciprocal(self, x):
        return self._recip(x)


class _Subst(ast.NodeTransformer):
    def __init__(self, table):
        self.table = table
        self.seen = set()

    def visit_Constant(self, node):
        if isinstance(node.value, (int, float)) and not isinstance(node.value, bool):
            for k, v in self.table.items():
                if type(k) is type(node.value) and k == node.value:
                    self.seen.add(k)
                    return ast.copy_location(ast.Constant(v), node)
        return node


def cascade_abstracted(n, a, c, recip, d):
    """signaling_cascade's own source, with the literals 64 / 63 / 69.0 / 0.7 / 0.07 replaced and np.reciprocal
    replaced by `recip`.  With (64, 0.7, 0.07, np.reciprocal) this must reproduce mdl.signaling_cascade bit for bit
    (checked on every run)."""
    src = textwrap.dedent(inspect.getsource(mdl.signaling_cascade))
    tree = ast.parse(src)
    sub = _Subst({64: n, 63: n - 1, 69.0: float(n + 5), 0.7: a, 0.07: c})
    tree = sub.visit(tree)
    ast.fix_missing_locations(tree)
    if sub.seen != {64, 63, 69.0, 0.7, 0.07}:
        raise lib.TieBroken('signaling_cascade: expected literals not found (%s)' % sorted(map(str, sub.seen)))
    ns = {'np': _NP(recip), 'TT': TT}
    exec(compile(tree, '<signaling_cascade abstracted>', 'exec'), ns)
    return ns['signaling_cascade'](d)


def gen_int_case(rng):
    which = rng.choice(['ising', 'exciton', 'two_step', 'cascade'])
    if which == 'ising':
        d, J, h = rng.randint(2, 6), rng.randint(-3, 3), rng.randint(-3, 3)
        t = mdl.ising(d, J, h)
        lit = [1, [d, J, h], lib.cores_lit(t.cores)]
        desc = dict(which=which, d=d, J=J, h=h)
    elif which == 'exciton':
        n, al, be = rng.randint(2, 6), rng.randint(-3, 3), rng.randint(-3, 3)
        t = mdl.exciton_chain(n, al, be)
        lit = [2, [n, al, be], lib.cores_lit(t.cores)]
        desc = dict(which=which, n=n, alpha=al, beta=be)
    elif which == 'two_step':
        k1, k2, k3, m = rng.randint(0, 4), rng.randint(0, 4), rng.randint(0, 4), rng.randint(0, 2)
        t = mdl.two_step_destruction(k1, k2, k3, m)
        lit = [3, [k1, k2, k3, 2 ** m, 2 ** (m + 1), 2 ** m, 2 ** m], lib.cores_lit(t.cores)]
        desc = dict(which=which, k=[k1, k2, k3], m=m)
    else:
        n, d, a, c = rng.randint(1, 4), rng.randint(2, 5), rng.randint(1, 5), rng.randint(1, 5)
        tab = [rng.randint(0, 4) for _ in range(n)]                # surrogate for 1 / (5 + y)
        t = cascade_abstracted(n, float(a), float(c), lambda x: np.array([float(v) for v in tab]), d)
        ltab = [y * tab[y] for y in range(n)]                      # l(y) = y * recip(5 + y)
        lit = [4, [n, d, a, c, ltab], lib.cores_lit(t.cores)]
        desc = dict(which=which, n=n, d=d, a=a, c=c)
    if not consistent(t):
        raise AssertionError('inconsistent TT returned')
    return lit, desc


# ---- numerical side check: every model against an independent dense assembly ---------------------------
def bitrev_dft(n, sign=1):
    N = 2 ** n
    F = np.exp(sign * 2j * np.pi * np.outer(np.arange(N), np.arange(N)) / N) / np.sqrt(N)
    rev = [int(format(i, '0%db' % n)[::-1], 2) if n > 0 else 0 for i in range(N)]
    return F[rev, :]


def kron_all(ms):
    out = np.ones((1, 1))
    for m in ms:
        out = np.kron(out, m)
    return out


def site_op(n, i, op, d=2):
    return kron_all([op if k == i else np.eye(d) for k in range(n)])


def unitary_defect_tt(G):
    Gh = G.transpose(conjugate=True)
    P = Gh @ G
    D = P - ttm.eye(G.row_dims)
    return float(D.norm()) / np.sqrt(float(np.prod([float(x) for x in G.row_dims])))


def kron_power_entry_check(fr, gen, level, rng, samples=400):
    """fr == gen (x) ... (x) gen (level factors), checked entrywise by digit decomposition"""
    shape = gen.shape
    if fr.shape != tuple(s ** level for s in shape):
        return 'shape %s is not the %d-fold Kronecker power of %s' % (fr.shape, level, shape)
    total = int(np.prod(fr.shape))
    idxs = range(total) if total <= 5000 else [rng.randrange(total) for _ in range(samples)]
    for flat in idxs:
        idx = np.unravel_index(flat, fr.shape)
        val = 1
        for l in range(level):
            dig = tuple((idx[k] // (shape[k] ** (level - 1 - l))) % shape[k] for k in range(len(shape)))
            val *= gen[dig]
        if fr[idx] != val:
            return 'entry %s is %s, Kronecker power gives %s' % (idx, fr[idx], val)
    return None


SIDE = ['co_oxidation', 'cascade', 'toll', 'two_step', 'qfa', 'qfan', 'shor', 'qft', 'iqft', 'exciton', 'ising', 'fpu', 'kuramoto',
        'cantor', 'multisponge', 'vicsek', 'rgb', 'simon']


def side_case(seed, quick=True):
    rng = random.Random(seed)
    which = rng.choice(SIDE)
    desc = dict(which=which)
    tol = 1e-10
    try:
        if which == 'co_oxidation':
            order, cyc = rng.randint(2, 6 if quick else 7), rng.random() < 0.5
            k = 10 ** rng.uniform(0, 8)
            desc.update(order=order, cyclic=cyc, k_ad_co=k)
            t = mdl.co_oxidation(order, k, cyclic=cyc)
            single = [[0, 2, k], [2, 0, 9.2e6]]
            two = [[0, 1, 0, 1, 9.7e7], [1, 0, 1, 0, 2.8e1], [2, 0, 1, 0, 1.7e5], [1, 0, 2, 0, 1.7e5], [1, 0, 0, 1, 5.0e-1], [0, 1, 1, 0, 5.0e-1],
                   [0, 2, 2, 0, 6.6e-2], [2, 0, 0, 2, 6.6e-2]]
            ref = dense_generator([3] * order, [single] * order, [two] * (order if cyc else order - 1), cyc)
            A = mat(t)
            if A.shape != ref.shape or np.max(np.abs(A - ref)) > 1e-9 * np.max(np.abs(ref)):
                return 'co_oxidation differs from the master-equation generator assembled from its reaction list: %.2e' % float(np.max(np.abs(A - ref))), desc
            cs, neg = generator_defect(A)
            if cs > 1e-9 or neg > 1e-12:
                return 'co_oxidation is not a generator: column sums %.2e, negative off-diagonal %.2e' % (cs, neg), desc
            return None, desc
        if which == 'cascade':
            # (a) the abstraction reproduces the real function bit for bit; (b) the real operator: column sums in TT form,
            # sampled entries against the reaction-network definition; (c) small surrogates densely
            d = rng.randint(2, 3)
            desc.update(d=d)
            t = mdl.signaling_cascade(d)
            t2 = cascade_abstracted(64, 0.7, 0.07, np.reciprocal, d)
            if len(t.cores) != len(t2.cores) or any(not np.array_equal(x, y) for x, y in zip(t.cores, t2.cores)):
                return 'TIE: abstracted signaling_cascade source does not reproduce the function', desc
            cs = colsums_tt(t)
            if float(np.max(np.abs(cs))) > 1e-10:
                return 'signaling_cascade(%d): column sums do not vanish: max %.3e' % (d, float(np.max(np.abs(cs)))), desc
            for _ in range(300):
                y = [rng.randrange(64) for _ in range(d)]
                kind = rng.choice(['diag', 'birth', 'death', 'other'])
                x = list(y)
                i = rng.randrange(d)
                if kind == 'birth':
                    x[i] = min(63, y[i] + 1)
                elif kind == 'death':
                    x[i] = max(0, y[i] - 1)
                elif kind == 'other':
                    x[i] = rng.randrange(64)
                    j = rng.randrange(d)
                    x[j] = rng.randrange(64)
                val = 1.0
                vec = np.ones((1, 1))
                for k_, c in enumerate(t.cores):
                    vec = vec @ c[:, x[k_], y[k_], :]
                val = float(vec[0, 0])
                # definition: species k is created at rate 0.7 (k = 0) or y_{k-1} / (5 + y_{k-1}) and destroyed at rate 0.07 y_k;
                # creation is switched off at the upper boundary 63
                def birth(k_):
                    if y[k_] >= 63:
                        return 0.0
                    return 0.7 if k_ == 0 else y[k_ - 1] / (5.0 + y[k_ - 1])
                def death(k_):
                    return 0.07 * y[k_]
                diff = [k_ for k_ in range(d) if x[k_] != y[k_]]
                if not diff:
                    ref = -sum(birth(k_) + death(k_) for k_ in range(d))
                elif len(diff) == 1 and x[diff[0]] == y[diff[0]] + 1:
                    ref = birth(diff[0])
                elif len(diff) == 1 and x[diff[0]] == y[diff[0]] - 1:
                    ref = death(diff[0])
                else:
                    ref = 0.0
                if abs(val - ref) > 1e-12 * (1 + abs(ref)):
                    return 'signaling_cascade(%d) entry x=%s y=%s is %.15g, reaction network gives %.15g' % (d, x, y, val, ref), desc
            n = rng.randint(1, 4)
            dd = rng.randint(2, 5)
            a, c = rng.uniform(0.1, 2), rng.uniform(0.01, 1)
            ts = cascade_abstracted(n, a, c, np.reciprocal, dd)
            cs, neg = generator_defect(mat(ts))
            if cs > 1e-12 or neg > 1e-14:
                return 'cascade pattern (n=%d, d=%d) is not a generator: column sums %.2e, negative off-diagonal %.2e' % (n, dd, cs, neg), desc
            return None, desc
        if which == 'toll':
            lanes, cars = rng.randint(2, 4), rng.randint(1, 3)
            desc.update(lanes=lanes, cars=cars)
            t = mdl.toll_station(lanes, cars)
            cs, neg = generator_defect(mat(t))
            if cs > 1e-10 or neg > 1e-12:
                return 'toll_station is not a generator: column sums %.2e, negative off-diagonal %.2e' % (cs, neg), desc
            return None, desc
        if which == 'two_step':
            k1, k2, k3 = [10 ** rng.uniform(-2, 2) for _ in range(3)]
            m = rng.randint(0, 3)
            desc.update(k=[k1, k2, k3], m=m)
            t = mdl.two_step_destruction(k1, k2, k3, m)
            if m <= 2:
                cs, neg = generator_defect(mat(t))
            else:
                c_ = colsums_tt(t)
                cs, neg = float(np.max(np.abs(c_))) / (1 + max(k1, k2, k3) * 4 ** m), 0.0
            if cs > 1e-10 or neg > 1e-12:
                return 'two_step_destruction is not a generator: column sums %.2e, negative off-diagonal %.2e' % (cs, neg), desc
            return None, desc
        if which in ('qfa', 'qfan'):
            if which == 'qfa':
                G = mat(mdl.qfa())
            else:
                k = rng.randint(1, 3 if quick else 4)
                desc.update(adders=k)
                t = mdl.qfan(k)
                if k >= 4:
                    dfc = unitary_defect_tt(t)
                    return ('qfan(%d) is not unitary: %.2e' % (k, dfc) if dfc > 1e-10 else None), desc
                G = mat(t)
            if np.max(np.abs(G.conj().T @ G - np.eye(G.shape[0]))) > tol:
                return '%s is not unitary' % which, desc
            if not np.all((G == 0) | (G == 1)) or not np.all(G.sum(axis=0) == 1):
                return '%s is not a permutation matrix' % which, desc
            return None, desc
        if which == 'shor':
            a = rng.choice([1, 2, 4, 7, 8, 11, 13, 14])
            desc.update(a=a)
            t = mdl.shor(a)
            dfc = unitary_defect_tt(t)
            if dfc > 1e-9:
                return 'shor(%d) is not unitary: %.2e' % (a, dfc), desc
            # oracle semantics on basis states |x>|y>: exponent register (2 qubits used), y -> y xor (a^j mod 15)
            for _ in range(6):
                bits = [rng.randrange(2) for _ in range(12)]
                e = ttm.unit([2] * 12, bits)
                out = t @ e
                v = dense(out.cores).reshape(-1)
                j = 2 * bits[6] + bits[7]
                mb = [int(b) for b in np.binary_repr(pow(a, j, 15), width=4)]
                exp_bits = bits[:8] + [bits[8 + i] ^ mb[i] for i in range(4)]
                idx = int(''.join(map(str, exp_bits)), 2)
                ref = np.zeros(4096)
                ref[idx] = 1
                if np.max(np.abs(v - ref)) > 1e-9:
                    return 'shor(%d) maps basis state %s to something other than the xor-ed modular power' % (a, bits), desc
            return None, desc
        if which in ('qft', 'iqft'):
            n = rng.randint(1, 7 if quick else 9)
            desc.update(n=n)
            G = mdl.qft(n) if which == 'qft' else mdl.iqft(n)
            if len(G) != n:
                return '%s(%d) returns %d gate groups' % (which, n, len(G)), desc
            P = np.eye(2 ** n, dtype=complex)
            for k, g in enumerate(G):
                M = mat(g)
                if np.max(np.abs(M.conj().T @ M - np.eye(2 ** n))) > tol:
                    return '%s(%d): gate group %d is not unitary' % (which, n, k), desc
                P = M @ P
            ref = bitrev_dft(n, 1 if which == 'qft' else -1)
            if np.max(np.abs(P - ref)) > 1e-9:
                return '%s(%d): product of the gate groups differs from the bit-reversed %sDFT by %.2e' % (which, n, '' if which == 'qft' else 'conjugate ', float(np.max(np.abs(P - ref)))), desc
            return None, desc
        if which == 'exciton':
            n = rng.randint(2, 8)
            al, be = rng.uniform(-2, 2), rng.uniform(-2, 2)
            if rng.random() < 0.3:
                al = rng.choice([0, 1, -2, np.int64(2)])       # integer-typed site energy with a real coupling
            desc.update(n=n, alpha=al, beta=be)
            H = mat(mdl.exciton_chain(n, al, be))
            up, lo = np.array([[0, 0], [1, 0]]), np.array([[0, 1], [0, 0]])
            ref = sum(al * site_op(n, i, up @ lo) for i in range(n))
            for i in range(n):
                j = (i + 1) % n
                ref = ref + be * (site_op(n, i, up) @ site_op(n, j, lo) + site_op(n, i, lo) @ site_op(n, j, up))
            if np.max(np.abs(H - ref)) > tol:
                return 'exciton_chain differs from alpha sum n_i + beta sum (a+_i a_i+1 + h.c.) on the ring: %.2e' % float(np.max(np.abs(H - ref))), desc
            if np.max(np.abs(H - H.conj().T)) > tol:
                return 'exciton_chain is not Hermitian', desc
            return None, desc
        if which == 'ising':
            d = rng.randint(2, 10)
            J, h = rng.uniform(-2, 2), rng.uniform(-2, 2)
            desc.update(d=d, J=J, h=h)
            T = dense(mdl.ising(d, J, h).cores).reshape([2] * d)
            for xs in itertools.product([0, 1], repeat=d):
                sp = [1 - 2 * x for x in xs]
                ref = -J * sum(sp[i] * sp[i + 1] for i in range(d - 1)) - h * sum(sp)
                if abs(T[xs] - ref) > tol:
                    return 'ising(%d) at %s is %.12g, energy formula gives %.12g' % (d, xs, T[xs], ref), desc
            return None, desc
        if which == 'fpu':
            d = rng.randint(2, 6)
            desc.update(d=d)
            xi = mdl.fpu_coefficients(d)
            X = dense(xi.cores).reshape([4] * d + [d])
            for _ in range(3):
                x = np.array([rng.uniform(-1, 1) for _ in range(d)])
                psi = [np.array([1, v, v ** 2, v ** 3]) for v in x]
                out = X
                for k in range(d):
                    out = np.tensordot(psi[k], out, axes=(0, 0))
                xe = np.concatenate([[0.0], x, [0.0]])
                ref = np.array([(xe[i + 2] - 2 * xe[i + 1] + xe[i]) + 0.7 * ((xe[i + 2] - xe[i + 1]) ** 3 - (xe[i + 1] - xe[i]) ** 3) for i in range(d)])
                if np.max(np.abs(out - ref)) > 1e-9:
                    return 'fpu_coefficients(%d) contracted with [1,x,x^2,x^3] differs from the FPU right-hand side by %.2e' % (d, float(np.max(np.abs(out - ref)))), desc
            return None, desc
        if which == 'kuramoto':
            d = rng.randint(1, 7)
            w = np.array([rng.uniform(-5, 5) for _ in range(d)])
            desc.update(d=d)
            w0 = w.copy()
            xi = mdl.kuramoto_coefficients(d, w)
            if not np.array_equal(w, w0):
                return 'kuramoto_coefficients modified the frequency vector', desc
            X = dense(xi.cores).reshape(d + 1, d + 1, d)
            for _ in range(3):
                th = np.array([rng.uniform(-3, 3) for _ in range(d)])
                out = np.einsum('a,b,abi->i', np.concatenate([[1], np.sin(th)]), np.concatenate([[1], np.cos(th)]), X)
                ref = np.array([w[i] + (2 / d) * sum(np.sin(th[j] - th[i]) for j in range(d)) + 0.2 * np.sin(th[i]) for i in range(d)])
                if np.max(np.abs(out - ref)) > 1e-9:
                    return 'kuramoto_coefficients(%d) differs from the Kuramoto right-hand side by %.2e' % (d, float(np.max(np.abs(out - ref)))), desc
            return None, desc
        if which in ('cantor', 'multisponge', 'vicsek'):
            dim = rng.randint(1, 3) if which == 'cantor' else rng.randint(2, 4)
            level = rng.randint(1, {1: 10, 2: 7, 3: 4, 4: 3}[dim])       # everything that fits in memory (<= 5e6 entries)
            desc.update(dimension=dim, level=level)
            gen = np.zeros([3] * dim, dtype=int)
            for idx in itertools.product(range(3), repeat=dim):
                mid = sum(1 for i in idx if i == 1)
                if which == 'cantor':
                    gen[idx] = int(mid == 0)
                elif which == 'multisponge':
                    gen[idx] = int(mid <= 1)
                else:
                    gen[idx] = int(dim - mid <= 1)
            f = {'cantor': mdl.cantor_dust, 'multisponge': mdl.multisponge, 'vicsek': mdl.vicsek_fractal}[which]
            fr = f(dim, level)
            msg = kron_power_entry_check(np.asarray(fr), gen, level, rng)
            return (('%s(%d, %d): ' % (which, dim, level) + msg) if msg else None), desc
        if which == 'rgb':
            n = rng.randint(1, 3)
            level = rng.randint(1, {1: 6, 2: 6, 3: 5}[n])
            ms = [np.array([[float(rng.randint(0, 2)) for _ in range(n)] for _ in range(n)]) for _ in range(3)]
            snap = [m.copy() for m in ms]
            desc.update(n=n, level=level)
            fr = mdl.rgb_fractal(ms[0], ms[1], ms[2], level)
            if any(not np.array_equal(a, b) for a, b in zip(ms, snap)):
                return 'rgb_fractal modified an input matrix', desc
            if fr.shape != (n ** level, n ** level, 3):
                return 'rgb_fractal shape %s' % (fr.shape,), desc
            for ch in range(3):
                msg = kron_power_entry_check(fr[:, :, ch], ms[ch], level, rng)
                if msg:
                    return 'rgb_fractal channel %d: %s' % (ch, msg), desc
            return None, desc
        if which == 'simon':
            v = dense(mdl.simon().cores).reshape(-1)
            if abs(np.linalg.norm(v) - 1) > tol:
                return 'simon final state is not normalised', desc
            return None, desc
    except lib.TieBroken as e:
        return 'TIE: %s' % e, desc
    except Exception as e:
        return 'raised %r' % (e,), desc
    return None, desc


def run(ctx):
    quick = ctx.tier == 'quick'
    lib.stage_proof(ctx, PROP_FILES, ['Check/C13.vo'])
    n = 100 if quick else 1600
    cases, metas = [], []
    for k in range(n):
        cs = ctx.rng.getrandbits(48)
        try:
            lit, d = gen_int_case(random.Random(cs))
        except lib.InexactValue:
            ctx.skipped_inexact += 1
            continue
        except Exception as e:
            ctx.fail('model constructor raised %r on admissible parameters' % (e,), {'gen': 'gen_int_case', 'case_seed': cs}, tags={'which': 'int', 'symptom': 'raised'},
                     found_input=not isinstance(e, lib.TieBroken))
            continue
        ctx.count('model:' + d['which'])
        ctx.nontriv(tuple(sorted((k_, str(v)) for k_, v in d.items())))
        if k < 2:
            ctx.sample({'case': d, 'literal': str(lit)[:300]})
        cases.append(lit)
        metas.append({'desc': {'gen': 'gen_int_case', 'case_seed': cs, 'case': d}, 'tags': {'which': d['which']}})
    bad = lib.stage_correspondence(ctx, 'models', REQ, 'check_C13', cases, metas)
    n_side = 400 if quick else 15000
    if bad:
        n_side *= 2
    for k in range(n_side):
        cs = ctx.rng.getrandbits(48)
        try:
            msg, desc = side_case(cs, quick)
        except Exception as e:
            msg, desc = 'side check raised %r' % (e,), {'case_seed': cs}
        ctx.side_cases += 1
        ctx.evaluations += 1
        ctx.count('side:%s' % desc.get('which'))
        if msg:
            tie = msg.startswith('TIE')
            ctx.fail('%s: %s' % (desc.get('which'), msg), {'gen': 'side_case', 'case_seed': cs, 'quick': quick, 'case': desc}, tags={'which': desc.get('which')}, found_input=not tie)
    return ctx.finish(level='proof', checker_cmd='make -C coq Props/C13.vo Check/C13.vo && coqc Props/C13.v', trusted=TRUSTED, explanation=RULE)


TRUSTED = ['Coq 8.16.1 kernel + vm_compute', 'harness (generators, dense oracles, the literal-abstracting re-execution of signaling_cascade, validated bit for bit on every run)',
           'non-negativity of off-diagonals, unitarity of the circuit models, QFT = DFT, FPU/Kuramoto right-hand sides and the fractals are decided by the side check (search), not by a theorem',
           'float rounding of the rate constants is outside the theorems (exact ring arithmetic)']
RULE = ('correspondence: ising, exciton_chain, two_step_destruction with integer parameters and signaling_cascade (its own source re-executed with cell size, rates and reciprocal table abstracted) compared core by core with the Coq models; '
        'side check: co_oxidation / toll_station / two_step_destruction / signaling_cascade as Markov generators (dense or TT-form column sums, sampled entries against the reaction network), '
        'qfa / qfan permutation + unitary, shor unitary + oracle semantics on basis states, qft / iqft gate groups unitary and multiplying to the bit-reversed (conjugate) DFT for n <= 7 (9 thorough), '
        'exciton_chain and ising against their formulas, fpu / kuramoto coefficient tensors against the right-hand sides at random states, fractals entrywise against Kronecker powers')


def replay(obj):
    r = obj['replay']
    if r.get('gen') == 'side_case':
        msg, desc = side_case(r['case_seed'], r.get('quick', True))
        print('replay: %s' % (msg or 'OK (no failure)'))
        return 1 if msg else 0
    print('replay: see file')
    return 1
