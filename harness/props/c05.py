# C05 — global SVD and pseudoinverse of a tensor train match the matrix ones
import numpy as np, random
from harness import lib, oracles
from harness.lib import dense, close, consistent
from harness.props.c01 import gen_tt, rranks, shape_tags, snapshot, unchanged
from harness.props.c03 import thr_lit

from scikit_tt.tensor_train import TT

PROP_FILES = ['Props/C05.v']
REQ = ['SkTT.Check.C05']


class UnitTape(oracles.Tape):
    """arbitrary answers with singular values 1 (so that np.reciprocal stays exact)"""
    def svd(self, a, full_matrices=True, compute_uv=True, **kw):
        u, s, v = super().svd(a, full_matrices=full_matrices, **kw)
        s1 = np.ones_like(s)
        name, ins, outs = self.calls[-1]
        self.calls[-1] = (name, ins, [outs[0], s1, outs[2]])
        return u, s1.copy(), v


def gen_int_case(rng):
    order = rng.randint(2, 4)
    rows = [rng.randint(1, 3) for _ in range(order)]
    t = gen_tt(rng, rows, [1] * order, rranks(rng, order), rng.random() < 0.35, 'int')
    index = rng.randint(1, order - 1)
    pinv = rng.random() < 0.4
    thr = rng.choice([0, 0, 0.25, 0.5]) if not pinv else 0
    maxr = rng.choice([np.inf, np.inf, 1, 2]) if not pinv else np.inf
    ol, or_ = rng.random() < 0.8, rng.random() < 0.8
    kind = rng.choice(['arb', 'arb', 'triv'])
    cplx = any(np.iscomplexobj(c) for c in t.cores) and rng.random() < 0.7
    tape = (UnitTape if pinv else oracles.Tape)(rng, kind, cplx=cplx)
    lit_in = lib.cores_lit(t.cores)
    snap = snapshot([t])
    with oracles.patched(tape, names=('svd',)):
        if pinv:
            res = t.pinv(index, threshold=thr, ortho_l=ol, ortho_r=or_)
        else:
            res = t.svd(index, threshold=thr, max_rank=maxr, ortho_l=ol, ortho_r=or_)
    if not unchanged([t], snap):
        raise AssertionError('input modified')
    log = [lib.mat_lit(c[1][0]) for c in tape.calls]
    args = [lit_in, index, thr_lit(thr), [] if maxr == np.inf else [int(maxr)], 1 if ol else 0, 1 if or_ else 0, oracles.svd_tape_lit(tape.calls)]
    if pinv:
        lit = [2, args, [lib.tt_out_lit(res), log]]
    else:
        u, s, v = res
        sl = lib.flat_zi(s)
        lit = [1, args, [lib.tt_out_lit(u), [[sl[2 * i], sl[2 * i + 1]] for i in range(len(s))], lib.tt_out_lit(v), log]]
    return lit, dict(order=order, index=index, pinv=pinv, kind=kind, ol=ol, or_=or_, tags=shape_tags(t))


def side_case(seed):
    rng = random.Random(seed)
    order = rng.randint(2, 5)
    rows = [rng.randint(1, 3) for _ in range(order)]
    cplx = rng.random() < 0.4
    t = gen_tt(rng, rows, [1] * order, rranks(rng, order, 4), cplx, 'float')
    deficient = rng.random() < 0.3
    if deficient:       # rank-deficient unfolding (never the zero tensor: that is finding F14, decided under C04)
        i = rng.randrange(order - 1)
        if t.cores[i].shape[3] >= 2:
            t.cores[i][..., -1] = 0 if rng.random() < 0.5 else t.cores[i][..., 0]
        else:
            deficient = False
    index = rng.randint(1, order - 1)
    sc = 1.0
    if rng.random() < 0.3:          # badly scaled trains: everything below is relative to the scale
        sc = 10.0 ** rng.choice([-18, -12, -6, 6, 12])
        t.cores[rng.randrange(order)] *= sc
    desc = dict(order=order, rows=rows, index=index, complex=cplx, deficient=deficient, scale=sc, cores=[lib.jsonable(c) for c in t.cores])
    A = dense(t.cores).reshape(int(np.prod(rows[:index])), int(np.prod(rows[index:])))
    snap = snapshot([t])
    thr = 1e-10 if deficient else rng.choice([0, 0, 1e-12])
    try:
        u, s, v = t.svd(index, threshold=thr)
        p = t.pinv(index, threshold=thr)
    except Exception as e:
        return 'raised %r' % (e,), desc
    if not unchanged([t], snap):
        return 'svd/pinv modified their input (overwrite=False)', desc
    if not (consistent(u) and consistent(v) and consistent(p)):
        return 'a returned TT is inconsistent', desc
    k = len(s)
    # dense() puts non-trivial boundary ranks last: rows + cols + [r0, rd]
    Um = dense(u.cores).reshape(int(np.prod(rows[:index])), k)
    Vm = dense(v.cores).reshape(int(np.prod(rows[index:])), k).T
    if not close(Um.conj().T @ Um, np.eye(k), 1e-8):
        return 'left factor does not have orthonormal columns', desc
    if not close(Vm @ Vm.conj().T, np.eye(k), 1e-8):
        return 'right factor does not have orthonormal rows', desc
    if not close(Um @ np.diag(s / sc) @ Vm, A / sc, 1e-8):
        return 'u * diag(s) * v does not reproduce the tensor', desc
    sref = np.linalg.svd(A, compute_uv=False)
    sref = sref[sref / sref[0] > (thr if thr else 0)] if thr else sref[:k]
    if len(sref) < k or not close(np.sort(s)[::-1] / sc, sref[:k] / sc, 1e-8):
        return 'singular values differ from those of the unfolding', desc
    P = dense(p.cores).reshape(A.shape)
    Aplus = np.linalg.pinv(A / sc, rcond=(thr if thr else 1e-15))
    if not close(P * sc, Aplus.conj().T, 1e-6):
        return 'pinv differs from the conjugate transpose of the Moore-Penrose pseudoinverse', desc
    return None, desc


def f30_witness():
    """known finding F30, fixed input: a genuine truncation (max_rank below the bond rank / a threshold above the smallest ratio).
    TT.svd truncates inside the right-orthonormalisation sweep, before the left part is orthonormal, so the kept singular
    values are not the leading singular values of the unfolding"""
    rng = np.random.default_rng(777)
    ranks = [1, 2, 6, 2, 1]
    t = TT([rng.standard_normal((ranks[i], 4, 1, ranks[i + 1])) for i in range(4)])
    sref = np.linalg.svd(dense(t.cores).reshape(16, 16), compute_uv=False)
    msgs = []
    try:
        _, s1, _ = t.svd(2, max_rank=3)
        if len(s1) != 3 or not close(s1, sref[:3], 1e-8):
            msgs.append('svd(2, max_rank=3) returns %s, the leading singular values of the unfolding are %s' % (np.round(s1, 4), np.round(sref[:3], 4)))
        _, s2, _ = t.svd(2, threshold=0.3)
        k = int(np.sum(sref / sref[0] > 0.3))
        if len(s2) != k or not close(s2, sref[:k], 1e-8):
            msgs.append('svd(2, threshold=0.3) returns %s, expected %s' % (np.round(s2, 4), np.round(sref[:k], 4)))
    except Exception as e:
        msgs.append('raised %r' % (e,))
    return '; '.join(msgs) if msgs else None


def run(ctx):
    quick = ctx.tier == 'quick'
    lib.stage_proof(ctx, PROP_FILES, ['Check/C05.vo'])
    n = 250 if quick else 6000
    cases, metas = [], []
    for k in range(n):
        cs = ctx.rng.getrandbits(48)
        try:
            lit, d = gen_int_case(random.Random(cs))
        except lib.InexactValue:
            ctx.skipped_inexact += 1
            continue
        except Exception as e:
            ctx.fail('svd/pinv raised %r on a valid input' % (e,), {'gen': 'gen_int_case', 'case_seed': cs}, tags={'op': 'svd', 'raised': True})
            continue
        ctx.count('op:' + ('pinv' if d['pinv'] else 'svd'))
        ctx.nontriv((d['pinv'], d['kind'], d['ol'], d['or_'], tuple(d['tags'])))
        if k < 2:
            ctx.sample({'case': d, 'literal': str(lit)[:300]})
        cases.append(lit)
        metas.append({'desc': {'gen': 'gen_int_case', 'case_seed': cs, 'case': d}, 'tags': {'op': 'pinv' if d['pinv'] else 'svd'}})
    bad = lib.stage_correspondence(ctx, 'svd', REQ, 'check_C05', cases, metas, show_fn='run_C05')
    n_side = 300 if quick else 18000
    if bad:
        n_side *= 5
    for k in range(n_side):
        cs = ctx.rng.getrandbits(48)
        try:
            msg, desc = side_case(cs)
        except Exception as e:
            msg, desc = 'side check raised %r' % (e,), {'case_seed': cs}
        ctx.side_cases += 1
        ctx.evaluations += 1
        if msg:
            ctx.fail('svd/pinv: ' + msg, {'gen': 'side_case', 'case_seed': cs, 'case': desc}, tags={'op': 'svd-side', 'msg': msg[:40]})
    msg = f30_witness()
    ctx.side_cases += 1
    ctx.evaluations += 1
    if msg:
        ctx.fail('svd with a genuine truncation: ' + msg, {'gen': 'f30_witness'}, tags={'op': 'svd', 'truncation_active': True})
    return ctx.finish(level='proof', checker_cmd='make -C coq Props/C05.vo Check/C05.vo && coqc Props/C05.v', trusted=TRUSTED, explanation=RULE)


TRUSTED = ['Coq 8.16.1 kernel + vm_compute', 'harness (tape oracles, generators)', 'SVD oracle hypotheses (value, orthonormal kept columns/rows) as named per theorem; np.reciprocal as a field inverse',
           'uniqueness of singular values (classical) is relied on, not re-proved', 'IEEE rounding not modelled']
RULE = ('correspondence: integer vector-type TTs, every split index, ortho_l/ortho_r on and off, thresholds and max ranks, SVD tape (arbitrary/exact; unit singular values for pinv so that reciprocals are exact); '
        'side check: float/complex, rank-deficient unfoldings with a relative cut, against numpy.linalg.svd / pinv; input unchanged; distinct/non-trivial = (pinv?, oracle kind, flags, edge-shape tags)')


def replay(obj):
    r = obj['replay']
    if r.get('gen') == 'side_case':
        msg, desc = side_case(r['case_seed'])
        print('replay: %s' % (msg or 'OK (no failure)'))
        return 1 if msg else 0
    print('replay: see file')
    return 1
