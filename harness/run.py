#!/venv/bin/python
# entry point:  run.py <ID> quick|thorough      or     run.py <ID> --replay <file>
import os, sys, json, importlib
sys.path.insert(0, os.path.dirname(os.path.dirname(os.path.abspath(__file__))))
from harness import lib


def main():
    if sys.argv[1] == '--replay':          # bin/check --replay <file>: the property is recorded in the file
        obj = json.load(open(sys.argv[2]))
        sys.argv = [sys.argv[0], obj['property'], '--replay', sys.argv[2]]
    prop = sys.argv[1]
    mod = importlib.import_module('harness.props.' + prop.lower())
    # per-case watchdog: a case that does not return within the limit is reported as a failure of that input
    limit = int(os.environ.get('VERIF_CASE_LIMIT', '60'))
    for name in dir(mod):
        f = getattr(mod, name)
        if callable(f) and getattr(f, '__module__', None) == mod.__name__ and not getattr(f, '_verif_watchdog', False) \
                and (name in ('side_case', 'gen_int_case', 'run_history', 'judge', 'judge2', 'gen_case', 'run_case') or name.endswith('_side') or name.endswith('_int')):
            setattr(mod, name, lib.with_watchdog(f, limit))
    if len(sys.argv) > 3 and sys.argv[2] == '--replay':
        obj = json.load(open(sys.argv[3]))
        sys.exit(mod.replay(obj))
    tier = sys.argv[2] if len(sys.argv) > 2 else os.environ.get('VERIF_TIER', 'quick')
    seed = int(os.environ.get('VERIF_SEED', '0') or 0)
    ctx = lib.Ctx(prop, tier, seed)
    if tier == 'thorough':
        from harness import oracles
        oracles.monitor_install()          # the real LAPACK answers are tested against the theorems' oracle hypotheses
        ctx.monitor = oracles.MONITOR
    try:
        rc = mod.run(ctx)
    except SystemExit:
        raise
    except Exception as e:
        import traceback
        tb = traceback.format_exc()
        sys.stderr.write(tb)
        ctx.fail('check crashed: %r' % (e,), {'stage': 'crash', 'traceback': tb}, tags={'stage': 'crash'}, found_input=False)
        rc = ctx.finish(level='proof', checker_cmd='(crashed)', explanation='check crashed')
    sys.exit(rc)


if __name__ == '__main__':
    main()
