#!/usr/bin/env python3
# seedtest.py <PROP> <seed_worktree> <k> [tests...] : confirm a seeded change and run the check against it.
#   1. demo passes on clean worktree, fails with patch (in the scratch worktree)
#   2. existing tests (given subset) pass with patch (in the scratch worktree)
#   3. apply to /repo, run bin/check <PROP> quick, revert /repo
# writes /verif/seeded/<PROP>-<k>/{patch.diff,demo.py,meta.json}
import sys, os, subprocess, json, shutil
prop, wt, k = sys.argv[1], sys.argv[2], sys.argv[3]
tests = sys.argv[4:]
src = os.path.join(wt, 'out', 'mut_%s' % k)
env = dict(os.environ, PYTHONPATH=wt, OMP_NUM_THREADS='1', OPENBLAS_NUM_THREADS='1', MKL_NUM_THREADS='1', PYTHONDONTWRITEBYTECODE='1')
def sh(cmd, cwd=None, env=env, timeout=3000):
    p = subprocess.run(cmd, shell=True, cwd=cwd, env=env, stdout=subprocess.PIPE, stderr=subprocess.STDOUT, text=True, timeout=timeout)
    return p.returncode, p.stdout
res = {}
sh('git checkout -- .', cwd=wt)
rc, out = sh('/venv/bin/python %s/demo.py' % src, cwd=wt); res['demo_clean_rc'] = rc
rc, out = sh('git apply %s/patch.diff' % src, cwd=wt); res['apply_rc'] = rc
rc, out = sh('/venv/bin/python %s/demo.py' % src, cwd=wt); res['demo_patched_rc'] = rc; res['demo_patched_out'] = out[-400:]
if tests:
    rc, out = sh('/venv/bin/python -m pytest -q -p no:cacheprovider -x %s' % ' '.join(tests), cwd=wt); res['tests_rc'] = rc; res['tests_tail'] = out[-200:]
sh('git checkout -- .', cwd=wt)
# against /repo
rc, out = sh('git -C /repo status --porcelain'); assert out.strip() == '', 'repo not clean: ' + out
rc, out = sh('git -C /repo apply %s/patch.diff' % src); res['repo_apply_rc'] = rc
try:
    rc, out = sh('bin/check %s quick' % prop, cwd='/verif', env=dict(os.environ)); res['check_rc'] = rc
    res['check_lines'] = [l for l in out.splitlines() if l.startswith('VIOLATION') or l.startswith('KNOWN')][:5]
finally:
    sh('git -C /repo checkout -- .')
    sh('git -C /verif checkout -- coq/Gen')      # files regenerated from the mutated source must not survive
dst = '/verif/seeded/%s-%d' % (prop, int(k) + int(os.environ.get('SEED_OFFSET', '0')))
os.makedirs(dst, exist_ok=True)
shutil.copy(os.path.join(src, 'patch.diff'), dst); shutil.copy(os.path.join(src, 'demo.py'), dst)
meta = json.load(open(os.path.join(src, 'meta.json')))
meta['confirmed'] = res
meta['detected_by_quick_check'] = (res.get('check_rc') == 1)
json.dump(meta, open(os.path.join(dst, 'meta.json'), 'w'), indent=1)
print(json.dumps({k_: v for k_, v in res.items() if k_ not in ('demo_patched_out', 'tests_tail')}))
