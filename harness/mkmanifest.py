#!/usr/bin/env python3
# regenerates MANIFEST.json from the table below (kept in one place so it is always valid)
import json, os
V = os.path.dirname(os.path.dirname(os.path.abspath(__file__)))
CLAIMED = {
 'C01': dict(
   text='Unbounded Coq theorems (any order, dims, ranks; commutative ring with involution) for the TT value semantics: sum, difference, scalar multiple, operator product, (conjugate) transpose, conjugate, copy, constructors, column sums; tied to /repo by exact differential execution of the Gallina model against TT methods on integer-valued real/complex inputs, plus a float side check against an einsum oracle used to search for failing inputs.',
   note='Trusted: Coq kernel + vm_compute; the Python harness (generators, literal printer); NumPy reshape/transposition semantics are modelled and observed, not proved; rounding not modelled; norm(p=2) and residual_error are decided under C03-style oracle models only numerically here.',
   technique='Coq proof over generic ring (chain/Kronecker induction) + exact model-vs-code correspondence', design='6 C01'),
 'C03': dict(
   text='Unbounded Coq theorems for ortho_left/ortho_right/ortho as factorise-and-push sweeps over an SVD oracle: value preservation (any start/end), isometry of processed cores, no rank increase, frame, consistency; tied to /repo by oracle-tape differential execution (the model must hand the SVD the same matrices and return the same cores/ranks for arbitrary and for exact answers), plus a float side check (value, Gram matrices, ranks, frame).',
   note='Trusted: Coq kernel + vm_compute; harness incl. the scipy.linalg.svd patching layer; LAPACK is assumed to meet the svd_spec conjuncts each theorem names (value / orthonormal kept columns / thin); rounding and the gesvd retry path not modelled.',
   technique='Coq proof by induction over the sweep with SVD as oracle hypothesis + oracle-tape correspondence', design='6 C03'),
 'C02': dict(
   text='Coq theorems (unbounded order/dims/ranks): the rank-rank matrix accumulated by tensordot equals the sum over all contracted row/column indices of the product of the two chains (all modes); full value theorem for mode last-first (partial and complete); rank_transpose, concatenate, rank_tensordot, diag, core merging (qtt2tt) and split-then-merge identity (tt2qtt, SVD value conjunct). All 12 tensordot branches, squeeze, tt2qtt, build_core are modelled and tied to /repo by exact differential execution (SVD tape for tt2qtt); float side check against numpy.tensordot/reshape.',
   note='PARTIAL: composed value statements for modes last-last/first-last/first-first, squeeze and build_core are covered by model+correspondence+side check, not by a theorem. Trusted: Coq kernel, harness, NumPy as dense oracle, SVD value conjunct.',
   technique='Coq proof (index-sum algebra over chains) + exact model-vs-code correspondence', design='6 C02'),
 'C14': dict(
   text='Coquelicot is_derive theorems, for all parameters and points, over the function bodies REGENERATED from transform.py on every run (fail-closed ast translator): first and second derivatives of the eight closed-form families, zero off-coordinate partials, gradient/Hessian assembly; the translator is validated on every run against the real methods; central-difference side check for all nine families incl. Bspline.',
   note='Trusted: Coq kernel; stdlib real-number axioms (sig_forall_dec, sig_not_dec), functional_extensionality_dep, classic (via Reals/Coquelicot); the translator; scipy legendre/BSpline and NumPy ufunc semantics as oracles. Bspline and vectorised evaluation are side-check only.',
   technique='translator-regenerated model + Coq/Coquelicot derivative proofs', design='6 C14'),
 'C15': dict(
   text='Coq theorems for every number of modes, functions per mode and snapshots: entry (k_1..k_p, j) of basis_decomposition (= coordinate_major / function_major with their tables) is the product of the selected basis functions at snapshot j; single_core is the corresponding core; gram equals the sum over all multi-indices of products. Tied to /repo by exact differential execution on integer data; float side check with explicit loops; hocur side check only.',
   note='PARTIAL: hocur (cross approximation) is outside the proof. Trusted: Coq kernel, harness (it computes the basis-evaluation tables from the real Function objects), rounding not modelled.',
   technique='Coq proof (diagonal-in-snapshot chain collapse) + exact model-vs-code correspondence', design='6 C15'),
 'C12': dict(
   text='Coq theorems (every order >= 2, cell sizes, bond ranks, open/cyclic): the SLIM block pattern denotes sum_i S_i + sum_i L_i.M_{i+1} + cyclic term; elementary reaction matrices have zero column sums; Ulam 2-D entries are transition counts. slim_mme (incl. super-core construction and SVD split, via tape) and ulam_2d are tied to /repo by exact differential execution; side check against a state-enumeration generator and histograms (2-D and 3-D).',
   note='Trusted: Coq kernel, harness, SVD value conjunct (L.M = super-core), numpy.unique as oracle; ulam_3d and off-diagonal non-negativity are side-check only; rounding not modelled.',
   technique='Coq proof (column-vector invariant over the block pattern) + oracle-tape correspondence', design='6 C12'),
 'C05': dict(
   text='Coq theorems: a chain of left-(right-)orthonormal cores has orthonormal columns (rows) for every order/rank vector (composition of isometries); u*diag(s)*v reproduces the decomposed cores under the SVD value conjunct; X = U S^-1 V (what pinv builds) satisfies the four Penrose equations, i.e. X^H = A^+. TT.svd and TT.pinv (all split indices, flags, thresholds, max ranks) are modelled on top of the C03 sweeps and tied to /repo by oracle-tape differential execution; side check against numpy.linalg.svd/pinv incl. rank-deficient unfoldings and input-unchanged.',
   note='Trusted: Coq kernel, harness, SVD oracle hypotheses, uniqueness of singular values and of the Penrose solution (classical, not re-proved); zero tensors with threshold>0 excluded (finding F14).',
   technique='Coq proof (isometry composition, Penrose algebra) + oracle-tape correspondence', design='6 C05'),
 'C04': dict(
   text='Coq theorems (every order/dims/ranks): no inner rank exceeds max_rank after construction from a full array or a truncating sweep (int or per-bond list); threshold 0 / unbounded rank is exact; ERROR IDENTITY: for genuine SVD answers and prefix truncation the squared Frobenius error equals the sum of the squares of all discarded singular values. TT(ndarray,..), truncated_svd and the truncating sweeps are tied to /repo by oracle-tape differential execution; side check of both inequalities of the property against dense unfoldings (flat and decaying spectra).',
   note='PARTIAL: the quasi-optimality bound w.r.t. the ORIGINAL unfoldings (needs Eckart-Young + interlacing) and the threshold bound (needs an ordered field) are derived from the proved identity only on paper and are tested numerically. Known finding F14 (zero tensor with threshold > 0 raises) is reported as KNOWN-FINDING. Trusted: Coq kernel, harness, SVD oracle hypotheses.',
   technique='Coq proof (Pythagoras over orthonormal singular directions, induction over the TT-SVD) + oracle-tape correspondence', design='6 C04'),
 'C06': dict(
   text='Coq theorems over an abstract heap model (objects own buffers with versions; every public operation has the effect fresh / in-place-on-target / consume): separation of distinct live objects is invariant under every effect and hence in every reachable state of every finite call history; every object other than the target keeps its value under any operation. The effect table is tied to /repo by a history fuzzer over ~50 public operations (binary operators, all overwrite variants, sweeps, svd/pinv, solvers, integrators, tdmd, arr) that observes the sharing graph (np.shares_memory), dense values, metadata and consistency after every step and tries to turn any aliasing into a visible change by in-place sweeps on rank-1 bonds.',
   note='Trusted: Coq kernel; the hand-written effect table (validated by observation on every run); NumPy/LAPACK memory behaviour is observed, not modelled; objects handed in twice by the caller (t.tensordot(t, overwrite=True)) and the consumed self of svd/pinv(overwrite=True) are outside the pool.',
   technique='Coq invariant proof over call histories (heap state machine) + observed-history correspondence', design='6 C06'),
 'C07': dict(
   text='Coq theorems: Galerkin descent for every Hermitian operator, frame and micro solution (exact excess identity, hence descent with a positive semidefinite form); closed form of the right environments built by sle.py for every order/dims/ranks (conjugation on the operator row index). sle.als and sle.mals (both micro-solvers, thresholds, max ranks) are modelled end to end (stacks, micro matrices and right-hand sides with their index permutations, QR/RQ/SVD updates, loop bounds) and tied to /repo by oracle-tape differential execution on non-symmetric integer operators; side check of descent, monotonicity, fixed point, maximal-rank exactness, dims and ranks against numpy.linalg.solve.',
   note='PARTIAL: left-stack closed form, the assembly micro_op = P^H A P, monotonicity over sweeps and exactness at maximal ranks are covered by model+correspondence+side check, not by theorems. Conditional on solvable micro systems (guesses within maximal TT ranks). Known findings F16/F16b (truncated MALS not monotone) are reported as KNOWN-FINDING.',
   technique='Coq proof (Galerkin orthogonality; environment induction) + oracle-tape correspondence of the full solver', design='6 C07'),
 'C08': dict(
   text='Coq theorems: Ritz consistency (for every order/dims/ranks, real and complex, standard and generalised problems: if the micro eigen-solver answers an eigenpair of the micro pencil at the last micro step, the returned eigenvalue is the Rayleigh quotient x^H A x / x^H G x of the returned tensor), via the closed form of the right environments; best-so-far bookkeeping is monotone. evp.als (eig/eigh, number_ev 1-2, deflation tensors with shift, generalised problems) is modelled end to end and tied to /repo by oracle-tape differential execution; side check against scipy.linalg.eigh: Rayleigh consistency, unit norm, <= lambda_max, fixed point (complex Hermitian), maximal-rank exactness, deflation = shift, monotonicity, inverse power iteration.',
   note='PARTIAL: <= lambda_max, fixed point, exactness at maximal ranks, deflation = shift and convergence of power_method are side-check claims. Defects F06/F07 (conjugation in the left stacks; power_method Rayleigh quotient) were repaired.',
   technique='Coq proof (environment closed form, quadratic-form identity) + oracle-tape correspondence of the full solver', design='6 C08'),
 'C09': dict(
   text='Coq theorems: the operators I + cA built by the schemes are entrywise delta + cA (c = h, -h, -h/2, +h/2); one explicit Euler step equals the dense recurrence when the orthonormalisation does not truncate; accepted time points of the adaptive controller increase strictly and never pass time_end (over Q, every sequence of positive step sizes). explicit Euler, HOD, implicit Euler and trapezoidal rule are modelled as compositions of the C01/C03/C07 models and tied to /repo by oracle-tape differential execution of whole trajectories; side check against dense recurrences (all schemes, varying steps, ALS/MALS, normalize 0/1/2, HOD orders 2-8 with start-up), error estimators, adaptive method.',
   note='PARTIAL: implicit Euler / trapezoidal exactness rests on the hypothesis that the inner ALS/MALS solve is exact (C07, representable ranks); HOD recurrence, error estimators and unit norms (sqrt) are covered by correspondence + side check. 1-normalisation only under the code\'s own precondition (non-negative states).',
   technique='Coq proof by composition of the TT-operation theorems + oracle-tape correspondence of trajectories', design='6 C09'),
 'C10': dict(
   text='Coq theorems: a two-site stage update applies the local propagator to the contracted core pair (SVD value conjunct); coefficient conditions of Lie, Strang, Yoshida (2w1+w0=1, 2w1^3+w0^3=0 for c^3=2, over R) and Kahan-Li (palindromic, sum 1, cubic and quintic sums < 1e-25, exact Q arithmetic) re-proved against the coefficient table and stage sequences regenerated from ode.py on every run. lie/strang (homogeneous and site-dependent components) are tied to /repo by differential execution with expm and SVD tapes, the stage order coming from the regenerated table; side check: all four schemes against the dense ordered product of scipy.linalg.expm factors, observed convergence orders, norm preservation for skew-Hermitian generators.',
   note='PARTIAL: "one step = ordered dense product" as a composed theorem and the global orders (BCH / composition theory) are side-check claims; Yoshida/Kahan-Li have irrational/decimal coefficients and are covered by the translator + side check, not by integer correspondence. Trusted: Coq kernel, Reals axioms (Yoshida), translator, expm/SVD oracles.',
   technique='translator-regenerated coefficient tables + Coq proofs (field/Q arithmetic, pair update) + oracle-tape correspondence', design='6 C10'),
 'C11': dict(
   text='Coq theorems: norm conservation of a projector-splitting sub-step (orthonormal frame, unitary coefficient update), energy conservation when the update commutes with the effective operator, the padded-factor conjugation q~^H M q~ of the backward sub-steps equals the model index formula, trajectory shape. tdvp1site/tdvp2site are tied to /repo by differential execution with expm_multiply, qr, rq and svd answered from a tape (every effective operator, vector and state compared); side check: exactness against scipy.linalg.expm(-itH)x0 at maximal ranks in arbitrary gauge, norm/energy conservation at low rank, Krylov with full dimension, inputs unchanged and trajectory shape for all four drivers.',
   note='PARTIAL: exactness at maximal ranks and Lanczos exactness need the matrix exponential (oracle) and are decided by correspondence + float side check, not by a theorem; hypotheses "orthonormal frame / unitary commuting propagator" are the specs of QR/RQ/SVD/expm. Known findings F09/F09b: ode.tdvp (hybrid) raises IndexError at maximal ranks / leaves order-1 states unevolved. Trusted: Coq kernel, harness tapes.',
   technique='Coq proofs (conservation algebra, projected operators) + oracle-tape correspondence (expm/qr/rq/svd) + dense expm side check', design='6 C11'),
 'C13': dict(
   text='Coq theorems (all sizes, all rates, any commutative ring with involution): a SLIM pattern whose single-site and left-coupling blocks have vanishing column sums has vanishing column sums (open or cyclic); signaling_cascade(d) and two_step_destruction have vanishing column sums including their boundary corrections; ising(d,J,h) equals the energy formula; exciton_chain is the cyclic nearest-neighbour sum of its blocks. The models are tied to /repo by exact core-by-core correspondence (integer parameters; signaling_cascade through its own source re-executed with cell size, rates and reciprocal table abstracted, the abstraction validated bit for bit on every run); side check: every bundled model against an independent dense assembly (generators incl. non-negative off-diagonals, circuit unitarity and semantics, QFT = bit-reversed DFT, FPU/Kuramoto right-hand sides, fractals = Kronecker powers).',
   note='PARTIAL: off-diagonal non-negativity (no order on the scalar ring), co_oxidation/toll_station beyond the C12 pattern theorem, unitarity of the circuit models, QFT = DFT, FPU/Kuramoto and the fractals are decided by the side check, not by a theorem. Trusted: Coq kernel, harness, the literal-abstracting re-execution.',
   technique='Coq proofs (column-sum induction over the SLIM pattern, explicit cores) + exact core correspondence + dense side check', design='6 C13'),
 'C16': dict(
   text='Coq theorems: MANDy post-processing contracts the pseudoinverse train with y (with C05: matricised result = (y Psi^+)^T); a solution of the normal equations never has a larger residual than any other coefficient vector (Pythagoras identity); ARR environments in closed form and the frame identity (fitted values linear in the updated core with the micro matrix as coefficients). mandy_cm/fm, mandy_kb and arr are tied to /repo by differential execution with svd / solve / lstsq / qr / rq answered from a tape; side check: MANDy against y pinv(Psi) on the dense transformed data matrix (under-, exactly-, over-determined), kernel-based fitted values, ARR residual monotone over 0-3 sweeps, ranks kept, guess and data unchanged, optimum at maximal ranks.',
   note='PARTIAL: the composed ARR monotonicity over whole sweeps (QR/RQ re-orthonormalisation keeps the iterate representable; order on the scalars), rank preservation and guess-unchanged are decided by correspondence + side check. Guesses with an over-parameterised bond (r_i > n_i r_{i+1}) are outside "keeps the ranks". Trusted: Coq kernel, harness tapes, lstsq/SVD/QR as oracles.',
   technique='Coq proofs (least-squares Pythagoras, environment closed forms, frame identity) + oracle-tape correspondence + dense pinv side check', design='6 C16'),
 'C17': dict(
   text='Coq theorems (every order, all spatial dimensions and ranks): the matrix handed to the eigen-solver is sum_b <X_left[:,a], Y_left[:,b]> (x_last y_last^T)[a\',b], i.e. U^T Y V^T S^-1 of the unfolded snapshot tensors (with C05 for pinv); a train with its last core replaced has entries left part x new last core (exact modes Y V^T S^-1 W L^-1, projected modes U W). tdmd_exact/tdmd_standard are tied to /repo by differential execution with svd and eig answered from a tape (SVD inputs, reduced matrix, sorted eigenvalues, all mode cores compared); side check: eigenvalues against SVD-based matrix DMD with the same relative cut, order, modes as eigenvectors of Y X^+ resp. U w, inputs unchanged.',
   note='eig/SVD are oracles; ortho flags may be switched off only for parts that are already orthonormal (their purpose) - otherwise pinv is not the pseudoinverse. Real data (the code transposes, it does not conjugate). Trusted: Coq kernel, harness tapes.',
   technique='Coq proof (running core contraction = Gram matrix of the unfolded parts) + oracle-tape correspondence (svd, eig) + matrix-DMD side check', design='6 C17'),
 'C18': dict(
   text='Coq theorems: with Psi = Q C (Q orthonormal), C_x = U S V, A = Q U S^-1, B = V C_y^T Q^T: the reduced matrix handed to the eigen-solver is B A; every eigenpair (lambda, w) of B A gives the eigenpair (lambda, A w) of A B = (Psi_x^T)^+ Psi_y^T, and A w is the returned eigentensor; a call with a list of index-set pairs is the map of the single-pair routine. amuset_hosvd is tied to /repo by differential execution with every svd and eig answered from a tape (decomposition inputs, selected columns, reduced matrix, eigenvalue order, all eigentensor cores; single and list calls); side check (hosvd and hocur): list call versus single calls, distinct result objects, eigenvalues against numpy matrix EDMD with the 1e-3 cut, order by |lambda-1|, eigen-equation of dense eigentensors, data unchanged.',
   note='PARTIAL: completeness (all non-zero EDMD eigenvalues are returned, with multiplicity), the complex ordering and the HOCUR variant are decided by the side check; SVD/eig are oracles. Three genuine defects repaired (F12, F18, F23). Trusted: Coq kernel, harness tapes.',
   technique='Coq proofs (AB/BA eigenpair transfer, reduced matrix = BA) + oracle-tape correspondence (svd, eig) + matrix-EDMD side check', design='6 C18'),
}
NOT_YET = {}
ALL = ['C%02d' % i for i in range(1, 21)]
def main():
    checks = []
    for pid in ALL:
        if pid in CLAIMED:
            c = CLAIMED[pid]
            checks.append({
                'property_id': pid,
                'quick_cmd': 'bin/check %s quick' % pid,
                'thorough_cmd': 'bin/check %s thorough' % pid,
                'evidence_file': 'evidence/%s.json' % pid,
                'replay_cmd_template': 'bin/check %s --replay {path}' % pid,
                'engine': 'coq-model',
                'level_claimed': {'category': 'proof', 'text': c['text'], 'design_ref': c['design']},
                'level_note': c['note'],
                'technique': c['technique'],
            })
    na = [{'property_id': p, 'reason': NOT_YET.get(p, 'no Coq model/theorems built for this property yet in this development (the technique applies; see DESIGN.md section 6); not claimed until its Props file and correspondence exist and are quiet on the unchanged tree')}
          for p in ALL if p not in CLAIMED]
    m = {
        'version': 1,
        'setup_cmd': 'cd coq && coq_makefile -f _CoqProject -o Makefile && make -j16',
        'hooks': {'guard': 'SCIKIT_TT_VERIF', 'enable': 'none needed: the harness patches scipy/numpy attributes at run time around single calls; no source hooks exist',
                  'baseline_off_cmd': 'cd /repo && /venv/bin/python -m pytest -ra -q -p no:cacheprovider --timeout=900 --continue-on-collection-errors',
                  'source_commits': [], 'add_only': True},
        'engines': [{'name': 'coq-model', 'path': 'coq/', 'serves_properties': sorted(CLAIMED), 'kind_free_text': 'Coq 8.16.1 development: generic-ring TT algebra, executable Gallina models, property theorems in coq/Props; harness/ ties it to /repo by exact differential execution'}],
        'checks': checks,
        'not_applicable': na,
        'notes': 'See DESIGN.md. known_findings.json lists repaired (fixed:) and recorded defects.',
    }
    json.dump(m, open(os.path.join(V, 'MANIFEST.json'), 'w'), indent=1)
if __name__ == '__main__':
    main()
